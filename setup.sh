#!/bin/bash
# Build the framework offline and prove the simulator on the current tree:
# pass-through run of the repository's tests on the rewritten tree, FS stub
# validation against a real directory, determinism self-test at GOMAXPROCS 1/4/16.
set -e
cd "$(dirname "$0")"
export GOFLAGS=-mod=mod GOPROXY=off GOSUMDB=off GOTOOLCHAIN=local
mkdir -p bin evidence replays
go build -o bin/simrewrite ./cmd/simrewrite
go build -o bin/simcheck ./cmd/simcheck
if [ "${VERIF_SETUP_SKIP_SELFTEST:-}" = "" ]; then
  ./bin/simcheck setup
fi

#!/bin/bash
# ./check.sh <PROP> <quick|thorough>  — builds the driver if needed, then runs the check.
cd "$(dirname "$0")"
export GOFLAGS=-mod=mod GOPROXY=off GOSUMDB=off GOTOOLCHAIN=local
if [ ! -x bin/simcheck ] || [ ! -x bin/simrewrite ] || [ -n "$(find cmd -newer bin/simcheck -name '*.go' 2>/dev/null)" ]; then
  mkdir -p bin
  go build -o bin/simrewrite ./cmd/simrewrite || exit 2
  go build -o bin/simcheck ./cmd/simcheck || exit 2
fi
exec ./bin/simcheck run "$1" --tier "${2:-${VERIF_TIER:-quick}}"

// simrewrite puts every source of nondeterminism of the code under test behind
// a seam of package simrt. It works in place on a scratch copy of /repo (and of
// the schema dependency, reached through a replace directive) and is
// type-directed: it looks at what an identifier resolves to, not its spelling.
//
//	simrewrite -dir <repo copy> -sites <out.json> [-yields] [-allow-unmodelled] pattern...
package main

import (
	"bytes"
	"encoding/json"
	"flag"
	"fmt"
	"go/ast"
	"go/format"
	"go/token"
	"go/types"
	"os"
	"path/filepath"
	"sort"
	"strconv"
	"strings"

	"golang.org/x/tools/go/ast/astutil"
	"golang.org/x/tools/go/packages"
)

const simrtPath = "verif.local/simrt"

type Site struct {
	ID    int    `json:"id"`
	Class string `json:"class"` // hot | entry | cold
	Pkg   string `json:"pkg"`
	Func  string `json:"func"`
	File  string `json:"file"`
	Line  int    `json:"line"`
}

type MapSite struct {
	ID      int    `json:"id"`
	Pkg     string `json:"pkg"`
	Func    string `json:"func"`
	File    string `json:"file"`
	Line    int    `json:"line"`
	KeyType string `json:"key_type"`
	Addr    bool   `json:"addr_keyed,omitempty"` // key order depends on addresses: not replayable across processes
	Capture bool   `json:"captures_loopvar,omitempty"`
}

type RecoverSite struct {
	ID   int    `json:"id"`
	Pkg  string `json:"pkg"`
	Func string `json:"func"`
	File string `json:"file"`
	Line int    `json:"line"`
}

type Table struct {
	Sites      []Site         `json:"sites"`
	MapSites   []MapSite      `json:"map_sites"`
	Recovers   []RecoverSite  `json:"recover_sites"`
	Unmodelled []string       `json:"unmodelled"`
	Seams      map[string]int `json:"seams"` // seam kind -> number of rewritten uses
	Files      int            `json:"files"`
	Packages   []string       `json:"packages"`
}

var (
	flagDir    = flag.String("dir", ".", "directory of the main module copy")
	flagSites  = flag.String("sites", "sites.json", "output: site table")
	flagYields = flag.Bool("yields", true, "insert statement-level yield points")
	flagAllow  = flag.Bool("allow-unmodelled", false, "do not fail on unmodelled primitives")
	flagSkip   = flag.String("skip", "/internal/cmd/,/internal/mocks,/test,/testdata", "comma separated import-path fragments to skip")
)

var fsFuncs = map[string]string{
	"os.Stat": "FSStat", "os.Lstat": "FSLstat", "os.ReadFile": "FSReadFile", "os.Open": "FSOpen",
	"os.OpenFile": "FSOpenFile", "os.ReadDir": "FSReadDir", "os.Readlink": "FSReadlink", "os.Getwd": "FSGetwd",
	"io/ioutil.ReadFile": "FSReadFile", "path/filepath.Abs": "FSAbs", "path/filepath.EvalSymlinks": "FSEvalSymlinks",
}

var timeFuncs = map[string]string{
	"time.Now": "TimeNow", "time.Since": "TimeSince", "time.Until": "TimeUntil", "time.Sleep": "TimeSleep",
}

var randFuncs = map[string]string{
	"Int": "RandInt", "Int31": "RandInt31", "Int63": "RandInt63", "Uint32": "RandUint32", "Uint64": "RandUint64",
	"Float64": "RandFloat64", "Float32": "RandFloat32", "Intn": "RandIntn", "Int31n": "RandInt31n",
	"Int63n": "RandInt63n", "Perm": "RandPerm", "Shuffle": "RandShuffle", "Seed": "RandSeed", "Read": "RandRead",
}

var syncTypes = map[string]string{"Mutex": "Mutex", "RWMutex": "RWMutex", "Once": "Once", "Pool": "Pool", "Map": "SyncMap", "WaitGroup": "WaitGroup"}

// functions/types that the simulator does not model: their presence in the
// code under test stops the check (exit 3) instead of letting it pass blind.
var unmodelledFuncs = map[string]bool{
	"os.Chdir": true, "os.DirFS": true, "os.Create": true, "os.WriteFile": true, "os.Remove": true, "os.RemoveAll": true,
	"os.Mkdir": true, "os.MkdirAll": true, "os.Rename": true, "os.Symlink": true, "os.Link": true,
	"path/filepath.Walk": true, "path/filepath.WalkDir": true, "path/filepath.Glob": true,
	"io/ioutil.ReadDir": true, "io/ioutil.WriteFile": true, "io/ioutil.TempFile": true, "io/ioutil.TempDir": true,
	"time.After": true, "time.NewTimer": true, "time.Tick": true, "time.AfterFunc": true, "time.NewTicker": true,
	"crypto/rand.Read": true, "crypto/rand.Int": true,
}
var unmodelledSyncTypes = map[string]bool{"Cond": true}

type rewriter struct {
	fset  *token.FileSet
	table Table
	unmod []string
}

func main() {
	flag.Parse()
	patterns := flag.Args()
	if len(patterns) == 0 {
		patterns = []string{"./..."}
	}
	cfg := &packages.Config{
		Mode: packages.NeedName | packages.NeedFiles | packages.NeedCompiledGoFiles | packages.NeedSyntax |
			packages.NeedTypes | packages.NeedTypesInfo | packages.NeedImports,
		Dir: *flagDir,
		Env: os.Environ(),
	}
	pkgs, err := packages.Load(cfg, patterns...)
	if err != nil {
		die("load: %v", err)
	}
	sort.Slice(pkgs, func(i, j int) bool { return pkgs[i].PkgPath < pkgs[j].PkgPath })
	var skips []string
	for _, s := range strings.Split(*flagSkip, ",") {
		if s != "" {
			skips = append(skips, s)
		}
	}
	rw := &rewriter{table: Table{Seams: map[string]int{}}}
	nerr := 0
	for _, p := range pkgs {
		for _, e := range p.Errors {
			fmt.Fprintf(os.Stderr, "simrewrite: %s: %v\n", p.PkgPath, e)
			nerr++
		}
	}
	if nerr > 0 {
		die("packages had errors")
	}
	for _, p := range pkgs {
		skip := false
		for _, s := range skips {
			if strings.Contains(p.PkgPath+"/", s+"/") || strings.HasSuffix(p.PkgPath, s) || strings.Contains(p.PkgPath, s) {
				skip = true
			}
		}
		if skip || p.PkgPath == simrtPath || strings.HasSuffix(p.PkgPath, "/zzverif") {
			continue
		}
		rw.fset = p.Fset
		rw.table.Packages = append(rw.table.Packages, p.PkgPath)
		type fileEnt struct {
			name string
			f    *ast.File
		}
		var files []fileEnt
		for i, f := range p.Syntax {
			files = append(files, fileEnt{p.CompiledGoFiles[i], f})
		}
		sort.Slice(files, func(i, j int) bool { return files[i].name < files[j].name })
		for _, fe := range files {
			if !strings.HasSuffix(fe.name, ".go") || strings.HasSuffix(fe.name, "_test.go") {
				continue
			}
			rw.file(p, fe.name, fe.f)
		}
	}
	sort.Strings(rw.unmod)
	rw.table.Unmodelled = rw.unmod
	b, _ := json.MarshalIndent(rw.table, "", " ")
	if err := os.WriteFile(*flagSites, b, 0o644); err != nil {
		die("write sites: %v", err)
	}
	fmt.Fprintf(os.Stderr, "simrewrite: %d packages, %d files, %d yield sites, %d map sites, %d recover sites, seams %v\n",
		len(rw.table.Packages), rw.table.Files, len(rw.table.Sites), len(rw.table.MapSites), len(rw.table.Recovers), rw.table.Seams)
	if len(rw.unmod) > 0 {
		for _, u := range rw.unmod {
			fmt.Fprintf(os.Stderr, "simrewrite: UNMODELLED %s\n", u)
		}
		if !*flagAllow {
			os.Exit(3)
		}
	}
}

func die(format string, a ...interface{}) {
	fmt.Fprintf(os.Stderr, "simrewrite: "+format+"\n", a...)
	os.Exit(2)
}

func (rw *rewriter) pos(n ast.Node) (string, int) {
	p := rw.fset.Position(n.Pos())
	return p.Filename, p.Line
}

func (rw *rewriter) unmodelled(n ast.Node, what string) {
	f, l := rw.pos(n)
	rw.unmod = append(rw.unmod, fmt.Sprintf("%s:%d: %s", f, l, what))
}

func simrtSel(name string) *ast.SelectorExpr {
	return &ast.SelectorExpr{X: ast.NewIdent("simrt"), Sel: ast.NewIdent(name)}
}

func intLit(i int) *ast.BasicLit { return &ast.BasicLit{Kind: token.INT, Value: strconv.Itoa(i)} }

func (rw *rewriter) file(p *packages.Package, name string, f *ast.File) {
	info := p.TypesInfo
	used := false
	rw.table.Files++

	// ---- which functions are "hot": methods of types that carry a lock, and
	// functions that touch package-level variables
	hotFuncs := map[*ast.FuncDecl]bool{}
	for _, d := range f.Decls {
		fd, ok := d.(*ast.FuncDecl)
		if !ok || fd.Body == nil {
			continue
		}
		if fd.Recv != nil && len(fd.Recv.List) == 1 {
			if t := info.TypeOf(fd.Recv.List[0].Type); t != nil && hasLockField(t) {
				hotFuncs[fd] = true
			}
		}
		ast.Inspect(fd.Body, func(n ast.Node) bool {
			if id, ok := n.(*ast.Ident); ok {
				if v, ok := info.Uses[id].(*types.Var); ok && v.Pkg() != nil && v.Parent() == v.Pkg().Scope() && v.Pkg() == p.Types {
					hotFuncs[fd] = true
				}
			}
			return true
		})
	}

	// ---- pass A: expression-level replacements (post-order)
	funcName := ""
	astutil.Apply(f, func(c *astutil.Cursor) bool {
		switch n := c.Node().(type) {
		case *ast.FuncDecl:
			funcName = declName(n)
		case *ast.SelectStmt:
			rw.unmodelled(n, "select")
		}
		return true
	}, func(c *astutil.Cursor) bool {
		switch n := c.Node().(type) {
		case *ast.SelectorExpr:
			id, ok := n.X.(*ast.Ident)
			if !ok {
				return true
			}
			if _, ok := info.Uses[id].(*types.PkgName); !ok {
				return true
			}
			obj := info.Uses[n.Sel]
			if obj == nil || obj.Pkg() == nil {
				return true
			}
			pkg, nm := obj.Pkg().Path(), obj.Name()
			key := pkg + "." + nm
			switch o := obj.(type) {
			case *types.Func:
				if to, ok := fsFuncs[key]; ok {
					c.Replace(simrtSel(to))
					used = true
					rw.table.Seams["fs"]++
				} else if to, ok := timeFuncs[key]; ok {
					c.Replace(simrtSel(to))
					used = true
					rw.table.Seams["clock"]++
				} else if pkg == "math/rand" {
					if to, ok := randFuncs[nm]; ok {
						c.Replace(simrtSel(to))
						used = true
						rw.table.Seams["rand"]++
					}
				} else if unmodelledFuncs[key] {
					rw.unmodelled(n, key)
				} else if pkg == "sync/atomic" {
					rw.unmodelled(n, key)
				}
				_ = o
			case *types.TypeName:
				if pkg == "sync" {
					if to, ok := syncTypes[nm]; ok {
						c.Replace(simrtSel(to))
						used = true
						rw.table.Seams["sync."+nm]++
					} else if unmodelledSyncTypes[nm] {
						rw.unmodelled(n, key)
					}
				} else if pkg == "sync/atomic" {
					rw.unmodelled(n, key)
				}
			}
		case *ast.GoStmt:
			// go f(a, b)  ->  { sima0, sima1 := a, b; simrt.Go(func() { f(sima0, sima1) }) }
			call := n.Call
			var pre ast.Stmt
			if len(call.Args) > 0 && !call.Ellipsis.IsValid() {
				single := true
				for _, a := range call.Args {
					if tv, ok := info.Types[a]; ok {
						if _, isTuple := tv.Type.(*types.Tuple); isTuple {
							single = false
						}
					}
				}
				if single {
					var lhs, args []ast.Expr
					for i := range call.Args {
						id := ast.NewIdent(fmt.Sprintf("simgoarg%d_%d", len(rw.table.Sites), i))
						lhs = append(lhs, id)
						args = append(args, id)
					}
					pre = &ast.AssignStmt{Lhs: lhs, Tok: token.DEFINE, Rhs: call.Args}
					call = &ast.CallExpr{Fun: call.Fun, Args: args}
				}
			}
			goCall := &ast.ExprStmt{X: &ast.CallExpr{Fun: simrtSel("Go"), Args: []ast.Expr{
				&ast.FuncLit{Type: &ast.FuncType{Params: &ast.FieldList{}}, Body: &ast.BlockStmt{List: []ast.Stmt{&ast.ExprStmt{X: call}}}},
			}}}
			blk := &ast.BlockStmt{}
			if pre != nil {
				blk.List = append(blk.List, pre)
			}
			blk.List = append(blk.List, goCall)
			c.Replace(blk)
			used = true
			rw.table.Seams["go"]++
		case *ast.SendStmt:
			c.Replace(&ast.ExprStmt{X: &ast.CallExpr{Fun: simrtSel("ChanSend"), Args: []ast.Expr{n.Chan, n.Value}}})
			used = true
			rw.table.Seams["chan"]++
		case *ast.UnaryExpr:
			if n.Op == token.ARROW {
				fn := "ChanRecv"
				// v, ok := <-ch
				if as, ok := c.Parent().(*ast.AssignStmt); ok && len(as.Lhs) == 2 && len(as.Rhs) == 1 && as.Rhs[0] == ast.Expr(n) {
					fn = "ChanRecv2"
				}
				if vs, ok := c.Parent().(*ast.ValueSpec); ok && len(vs.Names) == 2 && len(vs.Values) == 1 {
					fn = "ChanRecv2"
				}
				c.Replace(&ast.CallExpr{Fun: simrtSel(fn), Args: []ast.Expr{n.X}})
				used = true
				rw.table.Seams["chan"]++
			}
		case *ast.RangeStmt:
			if t := info.TypeOf(n.X); t != nil {
				if _, ok := t.Underlying().(*types.Chan); ok {
					// for v := range ch { body }  ->  for { v, simok := simrt.ChanRecv2(ch); if !simok { break }; body }
					okv := ast.NewIdent(fmt.Sprintf("simchok%d", len(rw.table.Sites)+rw.table.Seams["chan"]))
					var key ast.Expr = ast.NewIdent("_")
					if n.Key != nil {
						key = n.Key
					}
					tok := token.DEFINE
					var pre []ast.Stmt
					if n.Tok == token.ASSIGN {
						tok = token.ASSIGN
						pre = append(pre, &ast.DeclStmt{Decl: &ast.GenDecl{Tok: token.VAR, Specs: []ast.Spec{&ast.ValueSpec{Names: []*ast.Ident{okv}, Type: ast.NewIdent("bool")}}}})
					}
					pre = append(pre, &ast.AssignStmt{Lhs: []ast.Expr{key, okv}, Tok: tok, Rhs: []ast.Expr{&ast.CallExpr{Fun: simrtSel("ChanRecv2"), Args: []ast.Expr{n.X}}}})
					pre = append(pre, &ast.IfStmt{Cond: &ast.UnaryExpr{Op: token.NOT, X: okv}, Body: &ast.BlockStmt{List: []ast.Stmt{&ast.BranchStmt{Tok: token.BREAK}}}})
					body := &ast.BlockStmt{List: append(pre, n.Body.List...)}
					c.Replace(&ast.ForStmt{Body: body})
					used = true
					rw.table.Seams["chan"]++
				}
			}
		case *ast.CallExpr:
			// d.Readdirnames(n) / d.ReadDir(n) / d.Readdir(n) on an *os.File: the order in which a
			// directory lists its entries belongs to the file system, i.e. to the simulator
			if sel, ok := n.Fun.(*ast.SelectorExpr); ok {
				if s := info.Selections[sel]; s != nil && s.Kind() == types.MethodVal {
					if fn, ok := s.Obj().(*types.Func); ok && fn.Pkg() != nil && fn.Pkg().Path() == "os" {
						recv := s.Recv()
						if p, ok := recv.(*types.Pointer); ok {
							recv = p.Elem()
						}
						if nt, ok := recv.(*types.Named); ok && nt.Obj().Name() == "File" {
							if to, ok := map[string]string{"Readdirnames": "FileReaddirnames", "ReadDir": "FileReadDir", "Readdir": "FileReaddir", "Read": "FileRead", "ReadAt": "FileReadAt"}[fn.Name()]; ok {
								n.Args = append([]ast.Expr{sel.X}, n.Args...)
								n.Fun = simrtSel(to)
								used = true
								rw.table.Seams["fs"]++
								return true
							}
						}
					}
				}
			}
			// an address used as a value (map key, hash, ordering): whether two objects ever share one
			// depends on the garbage collector and the allocator, which the simulator does not own
			if sel, ok := n.Fun.(*ast.SelectorExpr); ok {
				if s := info.Selections[sel]; s != nil && s.Kind() == types.MethodVal {
					if fn, ok := s.Obj().(*types.Func); ok && fn.Pkg() != nil && fn.Pkg().Path() == "reflect" {
						switch fn.Name() {
						case "Pointer", "UnsafePointer", "UnsafeAddr":
							rw.unmodelled(n, "reflect.Value."+fn.Name()+" (address used as a value)")
						}
					}
				}
			}
			if tv, ok := info.Types[n.Fun]; ok && tv.IsType() && len(n.Args) == 1 {
				if b, ok := tv.Type.Underlying().(*types.Basic); ok && b.Kind() == types.Uintptr {
					if at, ok := info.Types[n.Args[0]]; ok {
						if ab, ok := at.Type.Underlying().(*types.Basic); ok && ab.Kind() == types.UnsafePointer {
							rw.unmodelled(n, "uintptr(unsafe.Pointer) (address used as a value)")
						}
					}
				}
			}
			// fmt.Sprintf / fmt.Errorf with a %p verb: addresses in text go through the simulator
			if sel, ok := n.Fun.(*ast.SelectorExpr); ok && len(n.Args) >= 1 {
				if fo, ok := info.Uses[sel.Sel].(*types.Func); ok && fo.Pkg() != nil && fo.Pkg().Path() == "fmt" {
					hasP := false
					if tv, ok := info.Types[n.Args[0]]; ok && tv.Value != nil && strings.Contains(tv.Value.ExactString(), "%p") {
						hasP = true
					}
					if fo.Name() != "Sprintf" && fo.Name() != "Errorf" && len(n.Args) >= 2 {
						if tv, ok := info.Types[n.Args[1]]; ok && tv.Value != nil && strings.Contains(tv.Value.ExactString(), "%p") {
							rw.unmodelled(n, "fmt."+fo.Name()+" with %p")
						}
					}
					if hasP && (fo.Name() == "Sprintf" || fo.Name() == "Errorf") {
						n.Fun = simrtSel(fo.Name())
						used = true
						rw.table.Seams["addr"]++
						return true
					}
				}
			}
			if id, ok := n.Fun.(*ast.Ident); ok && id.Name == "close" && len(n.Args) == 1 {
				if _, ok := info.Uses[id].(*types.Builtin); ok {
					c.Replace(&ast.CallExpr{Fun: simrtSel("ChanClose"), Args: n.Args})
					used = true
					rw.table.Seams["chan"]++
					return true
				}
			}
			if id, ok := n.Fun.(*ast.Ident); ok && id.Name == "recover" && len(n.Args) == 0 {
				if _, ok := info.Uses[id].(*types.Builtin); ok {
					fl, ln := rw.pos(n)
					sid := len(rw.table.Recovers)
					rw.table.Recovers = append(rw.table.Recovers, RecoverSite{ID: sid, Pkg: p.PkgPath, Func: funcName, File: rel(fl), Line: ln})
					c.Replace(&ast.CallExpr{Fun: simrtSel("Recovered"), Args: []ast.Expr{n, intLit(sid)}})
					used = true
					rw.table.Seams["recover"]++
				}
			}

		}
		return true
	})

	// ---- pass B: map ranges (in place)
	var curFunc string
	ast.Inspect(f, func(n ast.Node) bool {
		switch n := n.(type) {
		case *ast.FuncDecl:
			curFunc = declName(n)
		case *ast.RangeStmt:
			t := info.TypeOf(n.X)
			if t == nil {
				return true
			}
			mt, ok := t.Underlying().(*types.Map)
			if !ok {
				return true
			}
			fl, ln := rw.pos(n)
			sid := len(rw.table.MapSites)
			ms := MapSite{ID: sid, Pkg: p.PkgPath, Func: curFunc, File: rel(fl), Line: ln, KeyType: mt.Key().String()}
			switch mt.Key().Underlying().(type) {
			case *types.Pointer, *types.Chan, *types.Interface:
				ms.Addr = true
			}
			ms.Capture = capturesLoopVar(n)
			rw.table.MapSites = append(rw.table.MapSites, ms)
			rw.rewriteMapRange(n, sid)
			used = true
			rw.table.Seams["maprange"]++
		}
		return true
	})

	// ---- pass C: ticks and yields
	for _, d := range f.Decls {
		fd, ok := d.(*ast.FuncDecl)
		if !ok || fd.Body == nil {
			continue
		}
		if fd.Name.Name == "init" && fd.Recv == nil {
			continue
		}
		class := "cold"
		if hotFuncs[fd] {
			class = "hot"
		}
		rw.instrumentFunc(p.PkgPath, declName(fd), fd.Body, class, fd.Name.IsExported(), &used)
	}

	// ---- comments: keep only directives (free-floating comments may land
	// inside inserted statements when printed)
	var keep []*ast.CommentGroup
	for _, cg := range f.Comments {
		dir := false
		for _, cm := range cg.List {
			if strings.HasPrefix(cm.Text, "//go:") || strings.HasPrefix(cm.Text, "// +build") || strings.HasPrefix(cm.Text, "//line") {
				dir = true
			}
		}
		if dir {
			keep = append(keep, cg)
		}
	}
	f.Comments = keep
	for _, d := range f.Decls {
		switch d := d.(type) {
		case *ast.FuncDecl:
			if d.Doc != nil && !isDirective(d.Doc) {
				d.Doc = nil
			}
		case *ast.GenDecl:
			if d.Doc != nil && !isDirective(d.Doc) {
				d.Doc = nil
			}
		}
	}

	// ---- imports
	if used {
		astutil.AddNamedImport(rw.fset, f, "simrt", simrtPath)
	}
	for _, imp := range f.Imports {
		path, _ := strconv.Unquote(imp.Path.Value)
		if path == simrtPath || (imp.Name != nil && (imp.Name.Name == "_" || imp.Name.Name == ".")) {
			continue
		}
		switch path {
		case "os", "sync", "time", "math/rand", "path/filepath", "io/ioutil", "fmt":
			if !astutil.UsesImport(f, path) {
				if imp.Name != nil {
					astutil.DeleteNamedImport(rw.fset, f, imp.Name.Name, path)
				} else {
					astutil.DeleteImport(rw.fset, f, path)
				}
			}
		}
	}

	var buf bytes.Buffer
	if err := format.Node(&buf, rw.fset, f); err != nil {
		die("print %s: %v", name, err)
	}
	if err := os.WriteFile(name, buf.Bytes(), 0o644); err != nil {
		die("write %s: %v", name, err)
	}
}

func isDirective(cg *ast.CommentGroup) bool {
	for _, cm := range cg.List {
		if strings.HasPrefix(cm.Text, "//go:") || strings.HasPrefix(cm.Text, "// +build") {
			return true
		}
	}
	return false
}

var relBase string

func rel(file string) string {
	if relBase == "" {
		relBase, _ = filepath.Abs(*flagDir)
		relBase = filepath.Dir(relBase)
	}
	if r, err := filepath.Rel(relBase, file); err == nil && !strings.HasPrefix(r, "..") {
		return r
	}
	return file
}

func declName(fd *ast.FuncDecl) string {
	if fd.Recv != nil && len(fd.Recv.List) == 1 {
		t := fd.Recv.List[0].Type
		if s, ok := t.(*ast.StarExpr); ok {
			t = s.X
		}
		switch tt := t.(type) {
		case *ast.Ident:
			return tt.Name + "." + fd.Name.Name
		case *ast.IndexExpr:
			if id, ok := tt.X.(*ast.Ident); ok {
				return id.Name + "." + fd.Name.Name
			}
		case *ast.IndexListExpr:
			if id, ok := tt.X.(*ast.Ident); ok {
				return id.Name + "." + fd.Name.Name
			}
		}
	}
	return fd.Name.Name
}

func hasLockField(t types.Type) bool {
	if p, ok := t.(*types.Pointer); ok {
		t = p.Elem()
	}
	st, ok := t.Underlying().(*types.Struct)
	if !ok {
		return false
	}
	for i := 0; i < st.NumFields(); i++ {
		ft := st.Field(i).Type()
		if n, ok := ft.(*types.Named); ok && n.Obj().Pkg() != nil {
			pp := n.Obj().Pkg().Path()
			if pp == "sync" && (n.Obj().Name() == "Mutex" || n.Obj().Name() == "RWMutex") {
				return true
			}
		}
	}
	return false
}

func capturesLoopVar(rs *ast.RangeStmt) bool {
	names := map[string]bool{}
	for _, e := range []ast.Expr{rs.Key, rs.Value} {
		if id, ok := e.(*ast.Ident); ok && id.Name != "_" {
			names[id.Name] = true
		}
	}
	if len(names) == 0 || rs.Tok != token.DEFINE {
		return false
	}
	found := false
	ast.Inspect(rs.Body, func(n ast.Node) bool {
		switch n := n.(type) {
		case *ast.FuncLit:
			ast.Inspect(n.Body, func(m ast.Node) bool {
				if id, ok := m.(*ast.Ident); ok && names[id.Name] {
					found = true
				}
				return true
			})
		case *ast.UnaryExpr:
			if n.Op == token.AND {
				if id, ok := n.X.(*ast.Ident); ok && names[id.Name] {
					found = true
				}
			}
		}
		return true
	})
	return found
}

// rewriteMapRange turns
//
//	for k, v := range m { body }
//
// into
//
//	for _, simkvN := range simrt.Pairs(m, N) { k, v, simokN := simkvN.KV(); if !simokN { continue }; body }
func (rw *rewriter) rewriteMapRange(rs *ast.RangeStmt, sid int) {
	kv := ast.NewIdent("simkv" + strconv.Itoa(sid))
	okv := ast.NewIdent("simok" + strconv.Itoa(sid))
	key, val := rs.Key, rs.Value
	if key == nil {
		key = ast.NewIdent("_")
	}
	if val == nil {
		val = ast.NewIdent("_")
	}
	var pre []ast.Stmt
	call := &ast.CallExpr{Fun: &ast.SelectorExpr{X: kv, Sel: ast.NewIdent("KV")}}
	if rs.Tok == token.ASSIGN {
		pre = append(pre, &ast.DeclStmt{Decl: &ast.GenDecl{Tok: token.VAR, Specs: []ast.Spec{
			&ast.ValueSpec{Names: []*ast.Ident{okv}, Type: ast.NewIdent("bool")}}}})
		pre = append(pre, &ast.AssignStmt{Lhs: []ast.Expr{key, val, okv}, Tok: token.ASSIGN, Rhs: []ast.Expr{call}})
	} else {
		pre = append(pre, &ast.AssignStmt{Lhs: []ast.Expr{key, val, okv}, Tok: token.DEFINE, Rhs: []ast.Expr{call}})
	}
	pre = append(pre, &ast.IfStmt{Cond: &ast.UnaryExpr{Op: token.NOT, X: okv},
		Body: &ast.BlockStmt{List: []ast.Stmt{&ast.BranchStmt{Tok: token.CONTINUE}}}})
	rs.Body.List = append(pre, rs.Body.List...)
	rs.X = &ast.CallExpr{Fun: simrtSel("Pairs"), Args: []ast.Expr{rs.X, intLit(sid)}}
	rs.Key = ast.NewIdent("_")
	rs.Value = kv
	rs.Tok = token.DEFINE
}

func tickStmt() ast.Stmt {
	return &ast.ExprStmt{X: &ast.CallExpr{Fun: simrtSel("Tick")}}
}

func (rw *rewriter) yieldStmt(pkg, fn, class string, at ast.Node) ast.Stmt {
	fl, ln := rw.pos(at)
	id := len(rw.table.Sites)
	rw.table.Sites = append(rw.table.Sites, Site{ID: id, Class: class, Pkg: pkg, Func: fn, File: rel(fl), Line: ln})
	return &ast.IfStmt{
		Cond: &ast.IndexExpr{X: simrtSel("On"), Index: intLit(id)},
		Body: &ast.BlockStmt{List: []ast.Stmt{&ast.ExprStmt{X: &ast.CallExpr{Fun: simrtSel("Yield"), Args: []ast.Expr{intLit(id)}}}}},
	}
}

func (rw *rewriter) instrumentFunc(pkg, fn string, body *ast.BlockStmt, class string, exported bool, used *bool) {
	*used = true
	first := true
	var doList func(list []ast.Stmt) []ast.Stmt
	var walk func(n ast.Node)
	doList = func(list []ast.Stmt) []ast.Stmt {
		out := make([]ast.Stmt, 0, 2*len(list))
		for _, s := range list {
			if *flagYields && s.Pos().IsValid() {
				c := class
				if first && exported && c == "cold" {
					c = "entry"
				}
				first = false
				out = append(out, rw.yieldStmt(pkg, fn, c, s))
			}
			walk(s)
			out = append(out, s)
		}
		return out
	}
	walk = func(n ast.Node) {
		ast.Inspect(n, func(m ast.Node) bool {
			switch m := m.(type) {
			case *ast.FuncLit:
				if m.Body != nil {
					m.Body.List = doList(m.Body.List)
					m.Body.List = append([]ast.Stmt{tickStmt()}, m.Body.List...)
				}
				return false
			case *ast.BlockStmt:
				m.List = doList(m.List)
				return false
			case *ast.ForStmt:
				if m.Init != nil {
					walk(m.Init)
				}
				if m.Cond != nil {
					walk(m.Cond)
				}
				if m.Post != nil {
					walk(m.Post)
				}
				m.Body.List = doList(m.Body.List)
				m.Body.List = append([]ast.Stmt{tickStmt()}, m.Body.List...)
				return false
			case *ast.RangeStmt:
				walk(m.X)
				m.Body.List = doList(m.Body.List)
				m.Body.List = append([]ast.Stmt{tickStmt()}, m.Body.List...)
				return false
			case *ast.SwitchStmt:
				if m.Init != nil {
					walk(m.Init)
				}
				if m.Tag != nil {
					walk(m.Tag)
				}
				for _, cl := range m.Body.List {
					walk(cl)
				}
				return false
			case *ast.TypeSwitchStmt:
				if m.Init != nil {
					walk(m.Init)
				}
				walk(m.Assign)
				for _, cl := range m.Body.List {
					walk(cl)
				}
				return false
			case *ast.SelectStmt:
				for _, cl := range m.Body.List {
					walk(cl)
				}
				return false
			case *ast.CaseClause:
				for _, e := range m.List {
					walk(e)
				}
				m.Body = doList(m.Body)
				return false
			case *ast.CommClause:
				if m.Comm != nil {
					walk(m.Comm)
				}
				m.Body = doList(m.Body)
				return false
			}
			return true
		})
	}
	body.List = doList(body.List)
	body.List = append([]ast.Stmt{tickStmt()}, body.List...)
}

package main

import (
	"encoding/base64"
	"encoding/json"
	"fmt"
	"os"
	"sort"
	"strings"
	"time"
)

func cloneCase(c caseRec) caseRec {
	b, _ := json.Marshal(c)
	var out caseRec
	json.Unmarshal(b, &out)
	return out
}

// minimise shrinks a failing case while the same class and signature persist.
// Every candidate is judged by a fresh worker process.
func minimise(s *scratch, c caseRec, class, sig string, budget time.Duration) (result caseRec) {
	defer func() {
		if r := recover(); r != nil {
			fmt.Fprintf(os.Stderr, "simcheck: minimiser failed (%v); reporting the case as found\n", r)
			result = c
		}
	}()
	deadline := time.Now().Add(budget)
	tries := 0
	fails := func(cand caseRec) bool {
		if time.Now().After(deadline) {
			return false
		}
		tries++
		r := replayCase(s, cand, 60*time.Second)
		return r.violated && !r.infra && r.class == class && r.sig == sig
	}
	// the case must reproduce at all
	if !fails(c) {
		c["replay_unstable"] = true
		return c
	}
	cur := cloneCase(c)
	kind := fmt.Sprint(cur["kind"])

	// 1. fault plan: drop faults
	if plan, ok := cur["plan"].([]any); ok && len(plan) > 0 {
		for i := 0; i < len(plan); {
			cand := cloneCase(cur)
			np := append(append([]any{}, plan[:i]...), plan[i+1:]...)
			cand["plan"] = np
			if fails(cand) {
				cur, plan = cand, np
			} else {
				i++
			}
		}
	}
	// 2. decisions: ddmin over the non-zero ones (set to zero)
	if decs, ok := cur["decisions"].([]any); ok && len(decs) > 0 {
		var nz []int
		for i, d := range decs {
			if m, ok := d.(map[string]any); ok {
				if f, _ := m["C"].(float64); f != 0 {
					nz = append(nz, i)
				}
			}
		}
		zero := func(base caseRec, idxs []int) caseRec {
			cand := cloneCase(base)
			dd := cand["decisions"].([]any)
			for _, i := range idxs {
				dd[i].(map[string]any)["C"] = 0
			}
			return cand
		}
		n := 2
		for len(nz) > 0 && n <= 2*len(nz) && time.Now().Before(deadline) {
			chunk := (len(nz) + n - 1) / n
			reduced := false
			for st := 0; st < len(nz); st += chunk {
				en := st + chunk
				if en > len(nz) {
					en = len(nz)
				}
				cand := zero(cur, nz[st:en])
				if fails(cand) {
					cur = cand
					nz = append(append([]int{}, nz[:st]...), nz[en:]...)
					reduced = true
					break
				}
			}
			if reduced {
				if n > 2 {
					n--
				}
			} else {
				if chunk == 1 {
					break
				}
				n *= 2
			}
		}
		// truncate trailing zero decisions
		dd := cur["decisions"].([]any)
		last := -1
		for i, d := range dd {
			if f, _ := d.(map[string]any)["C"].(float64); f != 0 {
				last = i
			}
		}
		cand := cloneCase(cur)
		cand["decisions"] = dd[:last+1]
		if fails(cand) {
			cur = cand
		}
	}
	// 3. goroutines / operations of a workload (C16, C03)
	for _, key := range []string{"ops", "companions", "history"} {
		ex, _ := cur["extra"].(map[string]any)
		if ex == nil {
			break
		}
		lst, ok := ex[key].([]any)
		if !ok {
			continue
		}
		for i := 0; i < len(lst); {
			cand := cloneCase(cur)
			nl := append(append([]any{}, lst[:i]...), lst[i+1:]...)
			cand["extra"].(map[string]any)[key] = nl
			if fails(cand) {
				cur, lst = cand, nl
			} else {
				i++
			}
		}
	}
	// 4. files: drop, then line-level ddmin (not for kinds whose files are tied to a reference)
	if kind != "cut" && kind != "name" {
		proj, _ := cur["project"].(map[string]any)
		if files0, _ := proj["files"].(map[string]any); proj != nil && len(files0) > 0 {
			files, _ := proj["files"].(map[string]any)
			root := fmt.Sprint(proj["root"])
			var names []string
			for k := range files {
				names = append(names, k)
			}
			sort.Strings(names)
			for _, nm := range names {
				if nm == root {
					continue
				}
				cand := cloneCase(cur)
				delete(cand["project"].(map[string]any)["files"].(map[string]any), nm)
				if fails(cand) {
					cur = cand
				}
			}
			files = cur["project"].(map[string]any)["files"].(map[string]any)
			names = names[:0]
			for k := range files {
				names = append(names, k)
			}
			sort.Strings(names)
			for _, nm := range names {
				raw, err := base64.StdEncoding.DecodeString(fmt.Sprint(files[nm]))
				if err != nil {
					continue
				}
				lines := strings.SplitAfter(string(raw), "\n")
				set := func(base caseRec, ll []string) caseRec {
					cand := cloneCase(base)
					cand["project"].(map[string]any)["files"].(map[string]any)[nm] = base64.StdEncoding.EncodeToString([]byte(strings.Join(ll, "")))
					return cand
				}
				n := 2
				for len(lines) > 1 && n <= 2*len(lines) && time.Now().Before(deadline) {
					chunk := (len(lines) + n - 1) / n
					reduced := false
					for st := 0; st < len(lines); st += chunk {
						en := st + chunk
						if en > len(lines) {
							en = len(lines)
						}
						rest := append(append([]string{}, lines[:st]...), lines[en:]...)
						cand := set(cur, rest)
						if fails(cand) {
							cur, lines, reduced = cand, rest, true
							break
						}
					}
					if reduced {
						if n > 2 {
							n--
						}
					} else {
						if chunk == 1 {
							break
						}
						n *= 2
					}
				}
			}
		}
	}
	cur["minimised"] = map[string]any{"replays": tries, "from_bytes": caseSize(c), "to_bytes": caseSize(cur)}
	return cur
}

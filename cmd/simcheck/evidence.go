package main

import (
	"encoding/json"
	"fmt"
	"os"
	"path/filepath"
	"sort"
)

var propMeta = map[string]struct {
	level string
	rule  string
}{
	"C01": {"exploration", "cases = (project from the fixture corpus or the seeded generator) x (option set, entry point) x (fault-free | 1-3 planned faults on the simulated disk, placed at calls of the reference run; thorough adds every truncation point and byte flips of corpus files). distinct = distinct (project digest, fault plan) pairs; non-trivial = at least one fault actually fired, or the project is a generated one (not a verbatim fixture)."},
	"C03": {"exploration", "cases = one project under a reference environment (ascending map order, most-recent pool, fixed clock/RNG, alone, cold history) compared with >=4 (quick) / >=12 (thorough) other simulated environments: descending/rotated/shuffled map iteration at every map-range site, pool policies, different clock and RNG streams, other projects processed before (history) or concurrently under a seeded schedule (companions), and a fresh process. distinct = distinct (project digest, environment decision list) pairs; non-trivial = the environment made at least one non-default decision that was actually consumed (a map site visited with >=2 keys in non-ascending order, a non-most-recent pool hand-out, a context switch)."},
	"C08": {"exploration", "cases = (a) generated documents cut into files at legal cut points (runs of top-level directives or of children of an implicitly nested directive; nested up to depth 4; sub-directories; same file reused) compared with the un-cut document; (b) file-system states (absent, directory, empty) and errno/content faults at every include-related call; include cycles of length 1..4 incl. through the root; JSIGHT in an included file; (c) exhaustive enumeration of include names over the alphabet {. / \\ a \"} up to the length bound on the 'universal' disk where every path exists. distinct = distinct keys (document digest + cut shape / fault label + call / name + variant); non-trivial = every counted case involves at least one INCLUDE that is executed."},
	"C16": {"exploration", "cases = W1 concurrent parses (2-6 simulated goroutines), W2 concurrent readers of one catalog, W3 concurrent operations on each lock-guarded collection checked for linearizability (porcupine) — each under a seeded schedule (real goroutines, one runnable at a time), plain and -race builds. distinct = distinct interleavings: hashes of the sequence of (site, from, to) at context switches together with the workload digest; non-trivial = at least one context switch inside instrumented library code."},
	"C18": {"exploration", "cases = (banned set: every singleton of the 30 directive kinds, and sampled larger subsets) x (project from corpus or generator, with the banned kind written directly / inside a macro body / in an included file / absent) x (disk state of include targets: present, absent, directory, unreadable, universal). distinct = distinct (project digest, banned set, disk state); non-trivial = the banned set is non-empty and the project contains at least one directive."},
}

func writeEvidence(prop, tier string, seed uint64, stats map[string]any, viols []any, nUnlisted int, wall float64, s *scratch) error {
	meta := propMeta[prop]
	evals := num(stats, "executions")
	if evals == 0 {
		evals = num(stats, "cases_run")
	}
	distinct := num(stats, "distinct_count")
	if d := num(stats, "distinct_nontrivial"); d > 0 {
		distinct = d
	}
	samples, _ := stats["samples"].([]any)
	if len(samples) == 0 {
		samples = []any{"(no sample recorded)"}
	}
	cov := map[string]any{
		"evaluations":                   evals,
		"distinct_nontrivial":           distinct,
		"rule":                          meta.rule,
		"samples":                       samples,
		"cases":                         num(stats, "cases_run"),
		"runs_per_hour":                 int(float64(evals) / wall * 3600),
		"simulated_time":                "not applicable: the library has no timers or deadlines; logical steps (ticks, events) are reported instead",
		"truncated_by_wall_clock_guard": stats["truncated"],
		"violation_groups":              viols,
		"real_components":               []string{"all code of jsight-api-go-library and jsight-schema-go-library (rewritten copy of the current working tree)", "real sync.RWMutex/Once inside the simrt wrappers", "Go race detector (C16)"},
		"stubbed_components":            []string{"file system (simrt.Disk)", "map iteration order", "sync.Pool free list", "goroutine scheduling choice", "clock", "math/rand stream"},
	}
	for k, v := range stats {
		switch k {
		case "samples", "distinct", "distinct_nontrivial_keys", "distinct_nontrivial", "executions", "cases_run", "truncated", "violations", "wall_s":
			continue
		}
		if _, ok := cov[k]; !ok {
			cov[k] = v
		}
	}
	if ms, ok := stats["map_sites"].(map[string]any); ok {
		var blind []string
		for name, v := range ms {
			if m, ok := v.(map[string]any); ok {
				if f, _ := m["visits_ge2_keys"].(float64); f == 0 {
					blind = append(blind, name)
				}
			}
		}
		sort.Strings(blind)
		cov["map_sites_never_visited_with_2_or_more_keys"] = blind
	}
	if sb, err := os.ReadFile(s.sites); err == nil {
		var t struct {
			Sites    []any          `json:"sites"`
			MapSites []any          `json:"map_sites"`
			Recovers []any          `json:"recover_sites"`
			Seams    map[string]int `json:"seams"`
			Files    int            `json:"files"`
		}
		if json.Unmarshal(sb, &t) == nil {
			cov["rewriter"] = map[string]any{"files": t.Files, "yield_sites": len(t.Sites), "map_range_sites": len(t.MapSites), "recover_sites": len(t.Recovers), "seams": t.Seams}
		}
	}
	ev := map[string]any{
		"property_id": prop,
		"tier":        tier,
		"seed":        seed,
		"level":       meta.level,
		"coverage":    cov,
		"assumptions": []string{
			"seeded search, not proof: a clean batch is evidence only for the cases explored",
			"the source rewriter preserves semantics (checked on every run by the repository's own 2435 tests against the rewritten tree in pass-through mode)",
			"the simulated disk returns what a real one would (validated against a real temporary directory in the self-test)",
			"Go compiler, runtime and race detector",
		},
		"wall_s":     wall,
		"violations": nUnlisted,
	}
	b, err := json.MarshalIndent(ev, "", " ")
	if err != nil {
		return err
	}
	dir := filepath.Join(verifDir, "evidence")
	os.MkdirAll(dir, 0o755)
	tmp := filepath.Join(dir, fmt.Sprintf(".%s.json.tmp", prop))
	if err := os.WriteFile(tmp, b, 0o644); err != nil {
		return err
	}
	return os.Rename(tmp, filepath.Join(dir, prop+".json"))
}

package main

import (
	"fmt"
	"os"
	"os/exec"
	"path/filepath"
	"strings"
	"sync"
)

// selfTests proves the simulator before it is believed: the simulated disk is
// compared with a real directory, and the same seed is run in fresh processes
// at GOMAXPROCS 1, 4 and 16 with the complete event hashes diffed.
func selfTests(s *scratch, prop string, seed uint64, thorough bool) error {
	var wg sync.WaitGroup
	var fsErr, detErr error
	wg.Add(2)
	go func() {
		defer wg.Done()
		dir := filepath.Join(s.dir, "fsval")
		os.MkdirAll(dir, 0o755)
		out, err := runWorkerEnv(s, nil, "selftest-fs", dir)
		if err != nil {
			fsErr = fmt.Errorf("FS stub validation: %v\n%s", err, tail(out, 2000))
		}
	}()
	go func() {
		defer wg.Done()
		n := "12"
		if thorough {
			n = "40"
		}
		var outs [3]string
		var errs [3]error
		var wg2 sync.WaitGroup
		for i, p := range []string{"1", "4", "16"} {
			wg2.Add(1)
			go func(i int, p string) {
				defer wg2.Done()
				outs[i], errs[i] = runWorkerEnv(s, []string{"GOMAXPROCS=" + p}, "selftest-det", "-prop", prop, "-seed", fmt.Sprint(seed), "-n", n)
			}(i, p)
		}
		wg2.Wait()
		for i := range errs {
			if errs[i] != nil {
				detErr = fmt.Errorf("determinism self-test run %d: %v", i, errs[i])
				return
			}
		}
		if outs[0] != outs[1] || outs[0] != outs[2] || strings.TrimSpace(outs[0]) == "" {
			detErr = fmt.Errorf("determinism self-test: event logs differ between GOMAXPROCS 1/4/16:\n--1--\n%s\n--4--\n%s\n--16--\n%s", tail(outs[0], 600), tail(outs[1], 600), tail(outs[2], 600))
		}
	}()
	wg.Wait()
	if fsErr != nil {
		return fsErr
	}
	return detErr
}

func runWorkerEnv(s *scratch, extraEnv []string, args ...string) (string, error) {
	c := exec.Command(s.worker, args...)
	c.Env = append(s.env(), extraEnv...)
	out, err := c.CombinedOutput()
	return string(out), err
}

func cmdSetup() int {
	// build + every self-test once, on the unchanged tree
	s, rc := buildScratch("setup", true)
	if rc != 0 {
		return rc
	}
	defer s.cleanup()
	if err := passThroughTests(s); err != nil {
		return infra("pass-through tests: %v", err)
	}
	for _, p := range []string{"C01", "C03", "C08", "C16", "C18"} {
		if err := selfTests(s, p, 1, false); err != nil {
			return infra("%v", err)
		}
	}
	fmt.Println("simcheck: setup ok")
	return 0
}

// simcheck is the driver of the deterministic-simulation checks: it rebuilds a
// rewritten scratch copy of /repo's working tree, fans seeds out over
// crash-isolated worker processes, minimises and replays failures and writes
// the evidence file.
//
//	simcheck run <PROP> [--tier quick|thorough]      (env VERIF_SEED, VERIF_TIER)
//	simcheck replay <file>
//	simcheck setup
//
// Exit codes: 0 held, 1 violation (with a VIOLATION line), 2 infrastructure.
package main

import (
	"bufio"
	"bytes"
	"crypto/sha256"
	"encoding/hex"
	"encoding/json"
	"fmt"
	"os"
	"os/exec"
	"path/filepath"
	"runtime"
	"sort"
	"strconv"
	"strings"
	"sync"
	"time"
)

var verifDir string

func main() {
	exe, _ := os.Executable()
	verifDir = filepath.Dir(filepath.Dir(exe))
	if v := os.Getenv("VERIF_DIR"); v != "" {
		verifDir = v
	}
	if len(os.Args) < 2 {
		usage()
	}
	switch os.Args[1] {
	case "run":
		if len(os.Args) < 3 {
			usage()
		}
		tier := "quick"
		if t := os.Getenv("VERIF_TIER"); t != "" {
			tier = t
		}
		for i := 3; i < len(os.Args); i++ {
			if os.Args[i] == "--tier" && i+1 < len(os.Args) {
				tier = os.Args[i+1]
			}
			if strings.HasPrefix(os.Args[i], "--tier=") {
				tier = strings.TrimPrefix(os.Args[i], "--tier=")
			}
		}
		os.Exit(cmdRun(os.Args[2], tier))
	case "replay":
		if len(os.Args) < 3 {
			usage()
		}
		os.Exit(cmdReplay(os.Args[2]))
	case "setup":
		os.Exit(cmdSetup())
	default:
		usage()
	}
}

func usage() {
	fmt.Fprintln(os.Stderr, "usage: simcheck run <PROP> [--tier quick|thorough] | replay <file> | setup")
	os.Exit(2)
}

func infra(format string, a ...any) int {
	fmt.Fprintf(os.Stderr, "simcheck: INFRASTRUCTURE: "+format+"\n", a...)
	return 2
}

func goEnv() []string {
	env := os.Environ()
	env = append(env, "GOFLAGS=-mod=mod", "GOPROXY=off", "GOSUMDB=off", "GOTOOLCHAIN=local")
	return env
}

type scratch struct {
	dir      string
	worker   string
	workerRc string // race build ("" if not built)
	sites    string
}

func (s *scratch) cleanup() {
	if s.dir != "" && os.Getenv("VERIF_KEEP_SCRATCH") == "" {
		os.RemoveAll(s.dir)
	}
}

func (s *scratch) env() []string {
	return append(goEnv(), "SIM_SITES="+s.sites, "SIM_TESTDATA="+filepath.Join(s.dir, "repo", "testdata"))
}

// buildScratch copies /repo's working tree, rewrites it and builds the worker.
func buildScratch(tag string, race bool) (*scratch, int) {
	base := os.Getenv("VERIF_SCRATCH")
	if base == "" {
		base = "/var/tmp"
	}
	dir, err := os.MkdirTemp(base, "simcheck-"+tag+"-")
	if err != nil {
		return nil, infra("mktemp: %v", err)
	}
	s := &scratch{dir: dir, sites: filepath.Join(dir, "sites.json")}
	cmd := exec.Command(filepath.Join(verifDir, "scripts", "mkscratch.sh"), dir, "true")
	cmd.Env = goEnv()
	out, err := cmd.CombinedOutput()
	if err != nil {
		os.Stderr.Write(out)
		if ee, ok := err.(*exec.ExitError); ok && ee.ExitCode() == 3 {
			s.cleanup()
			return nil, infra("the tree uses primitives the simulator does not model (see UNMODELLED lines above); this check cannot decide the property for this tree")
		}
		s.cleanup()
		return nil, infra("mkscratch failed: %v", err)
	}
	// workers
	wdir := filepath.Join(dir, "repo", "zzverif")
	os.MkdirAll(wdir, 0o755)
	srcs, _ := filepath.Glob(filepath.Join(verifDir, "workers", "*.go"))
	for _, f := range srcs {
		b, err := os.ReadFile(f)
		if err != nil {
			s.cleanup()
			return nil, infra("read %s: %v", f, err)
		}
		os.WriteFile(filepath.Join(wdir, filepath.Base(f)), b, 0o644)
	}
	if b, err := os.ReadFile(filepath.Join(verifDir, "scratch_extra", "catalog_zz_verif_export.go")); err == nil {
		os.WriteFile(filepath.Join(dir, "repo", "catalog", "zz_verif_export.go"), b, 0o644)
	}
	build := func(out string, race bool) error {
		args := []string{"build"}
		if race {
			args = append(args, "-race")
		}
		args = append(args, "-o", out, "./zzverif")
		c := exec.Command("go", args...)
		c.Dir = filepath.Join(dir, "repo")
		c.Env = goEnv()
		o, err := c.CombinedOutput()
		if err != nil {
			os.Stderr.Write(o)
		}
		return err
	}
	s.worker = filepath.Join(dir, "simworker")
	var wg sync.WaitGroup
	var e1, e2 error
	wg.Add(1)
	go func() { defer wg.Done(); e1 = build(s.worker, false) }()
	if race {
		s.workerRc = filepath.Join(dir, "simworker-race")
		wg.Add(1)
		go func() { defer wg.Done(); e2 = build(s.workerRc, true) }()
	}
	wg.Wait()
	if e1 != nil || e2 != nil {
		s.cleanup()
		return nil, infra("building the worker against the rewritten tree failed")
	}
	return s, 0
}

// passThroughTests runs the repository's own suite against the rewritten tree
// with every seam in pass-through mode.
func passThroughTests(s *scratch) error {
	c := exec.Command("go", "test", "-vet=off", "-count=1", "./catalog/...", "./core/...", "./directive/...", "./jerr/...", "./kit/...", "./notation/...", "./scanner/...", "./test/...", "./internal/...")
	c.Dir = filepath.Join(s.dir, "repo")
	c.Env = goEnv()
	out, err := c.CombinedOutput()
	if err != nil {
		return fmt.Errorf("%v\n%s", err, tail(string(out), 3000))
	}
	return nil
}

func tail(s string, n int) string {
	if len(s) > n {
		return s[len(s)-n:]
	}
	return s
}

// ------------------------------------------------------------------ run

type caseRec = map[string]any

type group struct {
	class, sig string
	cases      []caseRec
}

func cmdRun(prop, tier string) int {
	start := time.Now()
	seed := uint64(1)
	if v := os.Getenv("VERIF_SEED"); v != "" {
		if n, err := strconv.ParseUint(v, 10, 64); err == nil {
			seed = n
		} else if n, err := strconv.ParseInt(v, 10, 64); err == nil {
			seed = uint64(n)
		}
	}
	if tier != "quick" && tier != "thorough" {
		return infra("unknown tier %q", tier)
	}
	race := prop == "C16"
	s, rc := buildScratch(prop, race)
	if rc != 0 {
		return rc
	}
	defer s.cleanup()
	fmt.Printf("simcheck: property=%s tier=%s seed=%d scratch=%s\n", prop, tier, seed, s.dir)

	// pass-through suite in the background
	ptDone := make(chan error, 1)
	go func() { ptDone <- passThroughTests(s) }()

	// self tests of the simulator (stub validation, determinism) — quick versions
	// A failing self-test never turns into a pass: the run ends with exit 2 unless the check
	// proper finds a violation (a tree that keeps state between parses can make the simulated and
	// the real run of the stub validation interfere; that is the tree's doing, and the oracles
	// below are the ones to say so).
	selfTestErr := selfTests(s, prop, seed, tier == "thorough")
	if selfTestErr != nil {
		fmt.Printf("simcheck: simulator self-test failed (the run continues; it cannot end with a pass): %s\n", oneLine(selfTestErr.Error(), 400))
	}

	nw := runtime.NumCPU()
	if v := os.Getenv("VERIF_WORKERS"); v != "" {
		if n, err := strconv.Atoi(v); err == nil && n > 0 {
			nw = n
		}
	}
	maxSec := 0
	if v := os.Getenv("VERIF_MAX_SECONDS"); v != "" {
		maxSec, _ = strconv.Atoi(v)
	}
	outDir := filepath.Join(s.dir, "out")
	os.MkdirAll(outDir, 0o755)
	type batch struct {
		bin, dir string
		race     bool
	}
	batches := []batch{{s.worker, outDir, false}}
	if race {
		rd := filepath.Join(s.dir, "out-race")
		os.MkdirAll(rd, 0o755)
		batches = append(batches, batch{s.workerRc, rd, true})
	}
	var crashes []caseRec
	var infraErr error
	fmt.Printf("simcheck: build+selftests %.1fs\n", time.Since(start).Seconds())
	for _, b := range batches {
		t0 := time.Now()
		cr, err := fanOut(s, b.bin, b.dir, b.race, prop, tier, seed, nw, maxSec)
		fmt.Printf("simcheck: batch race=%v %.1fs\n", b.race, time.Since(t0).Seconds())
		crashes = append(crashes, cr...)
		if err != nil {
			infraErr = err
			break
		}
	}
	if infraErr != nil {
		return infra("%v", infraErr)
	}
	if err := <-ptDone; err != nil {
		return infra("the repository's own tests fail on the rewritten tree in pass-through mode (rewriter bug, or the tree's tests fail):\n%v", err)
	}

	// collect
	var viols []caseRec
	var outDirs []string
	for _, b := range batches {
		outDirs = append(outDirs, b.dir)
		files, _ := filepath.Glob(filepath.Join(b.dir, "violations.*.jsonl"))
		sort.Strings(files)
		for _, f := range files {
			fh, err := os.Open(f)
			if err != nil {
				continue
			}
			sc := bufio.NewScanner(fh)
			sc.Buffer(make([]byte, 1<<20), 1<<28)
			for sc.Scan() {
				var v caseRec
				if json.Unmarshal(sc.Bytes(), &v) == nil {
					if b.race {
						v["race_build"] = true
					}
					viols = append(viols, v)
				}
			}
			fh.Close()
		}
	}
	// cases in which the worker died: materialise the case with `dump`
	for _, cr := range crashes {
		idx := int(cr["index"].(int))
		crRace, _ := cr["race_build"].(bool)
		out, err := runWorkerBin(s, crRace, 60*time.Second, "dump", "-prop", prop, "-tier", tier, "-seed", fmt.Sprint(seed), "-case", fmt.Sprint(idx))
		if err != nil {
			return infra("dump of crashed case %d failed: %v", idx, err)
		}
		// the crashed case is the one (of possibly several in that index) that dies on replay
		found := false
		for _, line := range strings.Split(strings.TrimSpace(out), "\n") {
			var v caseRec
			if json.Unmarshal([]byte(line), &v) != nil {
				continue
			}
			if crRace {
				v["race_build"] = true
			}
			res := replayCase(s, v, 120*time.Second)
			if res.died || (res.violated && !res.infra) {
				v["class"], v["signature"], v["detail"] = res.class, res.sig, res.detail
				viols = append(viols, v)
				found = true
				break
			}
		}
		if !found {
			// not reproducible in isolation: report as it was seen
			fmt.Printf("simcheck: worker death in case %d did not reproduce in isolation (%s)\n", idx, cr["signature"])
			return infra("worker died in case %d (%v) but the case does not reproduce alone:\n%v", idx, cr["signature"], cr["detail"])
		}
	}

	stats := aggregateStats(outDirs)
	groups := map[string]*group{}
	var order []string
	for _, v := range viols {
		key := fmt.Sprint(v["class"]) + "/" + fmt.Sprint(v["signature"])
		g, ok := groups[key]
		if !ok {
			g = &group{class: fmt.Sprint(v["class"]), sig: fmt.Sprint(v["signature"])}
			groups[key] = g
			order = append(order, key)
		}
		g.cases = append(g.cases, v)
	}
	sort.Strings(order)
	known := loadKnown(prop)
	exit := 0
	os.MkdirAll(filepath.Join(verifDir, "replays"), 0o755)
	budget := 25 * time.Second
	if tier == "thorough" {
		budget = 120 * time.Second
	}
	reported := 0
	var violSummaries []any
	for _, key := range order {
		g := groups[key]
		// smallest case first
		sort.SliceStable(g.cases, func(i, j int) bool { return caseSize(g.cases[i]) < caseSize(g.cases[j]) })
		c := g.cases[0]
		kf, isKnown := known[key]
		var path string
		if reported < 8 && !isKnown {
			c = minimise(s, c, g.class, g.sig, budget)
			reported++
		}
		h := sha256.Sum256([]byte(key))
		path = filepath.Join(verifDir, "replays", fmt.Sprintf("%s-%s-%s.json", prop, sanitize(g.class), hex.EncodeToString(h[:4])))
		b, _ := json.MarshalIndent(c, "", " ")
		os.WriteFile(path, b, 0o644)
		violSummaries = append(violSummaries, map[string]any{"class": g.class, "signature": g.sig, "count": len(g.cases), "replay": path, "known": isKnown})
		if isKnown {
			fmt.Printf("KNOWN-FINDING: property=%s %s (signature %s, %d cases, replay=%s)\n", prop, kf, key, len(g.cases), path)
			continue
		}
		fmt.Printf("VIOLATION property=%s replay=%s\n", prop, path)
		fmt.Printf("  class=%s signature=%s cases=%d detail=%s\n", g.class, g.sig, len(g.cases), oneLine(fmt.Sprint(c["detail"]), 300))
		exit = 1
	}
	nUnknown := 0
	for _, key := range order {
		if _, ok := known[key]; !ok {
			nUnknown += len(groups[key].cases)
		}
	}
	if err := writeEvidence(prop, tier, seed, stats, violSummaries, nUnknown, time.Since(start).Seconds(), s); err != nil {
		return infra("evidence: %v", err)
	}
	fmt.Printf("simcheck: property=%s tier=%s cases=%v executions=%v violations=%d (unlisted %d) wall=%.1fs\n",
		prop, tier, stats["cases_run"], stats["executions"], len(viols), nUnknown, time.Since(start).Seconds())
	if exit == 0 && selfTestErr != nil {
		return infra("simulator self-test failed and the check found nothing: %v", selfTestErr)
	}
	return exit
}

// fanOut runs one batch of worker shards (crash-isolated processes) and returns
// the cases in which a worker process died.
func fanOut(s *scratch, bin, outDir string, race bool, prop, tier string, seed uint64, nw, maxSec int) ([]caseRec, error) {
	var mu sync.Mutex
	var crashes []caseRec
	var infraErr error
	var wg sync.WaitGroup
	for k := 0; k < nw; k++ {
		wg.Add(1)
		go func(k int) {
			defer wg.Done()
			from := 0
			for attempt := 0; attempt < 200; attempt++ {
				args := []string{"run", "-prop", prop, "-tier", tier, "-seed", fmt.Sprint(seed), "-shard", fmt.Sprintf("%d/%d", k, nw), "-from", fmt.Sprint(from), "-out", outDir}
				if maxSec > 0 {
					args = append(args, "-max-seconds", fmt.Sprint(maxSec))
				}
				// Pin each worker to one core: the goroutine hand-off of the simulated
				// scheduler is a pipe write + blocking read, five times cheaper when
				// waker and wakee share a core. The schedule itself does not depend on it.
				c := exec.Command(bin, args...)
				if ts, err := exec.LookPath("taskset"); err == nil && os.Getenv("VERIF_NO_PIN") == "" {
					c = exec.Command(ts, append([]string{"-c", fmt.Sprint(k % runtime.NumCPU()), bin}, args...)...)
				}
				c.Env = append(s.env(), raceEnv(outDir, race))
				var stderr bytes.Buffer
				c.Stderr = &stderr
				c.Stdout = &stderr
				err := runWatched(c, filepath.Join(outDir, fmt.Sprintf("progress.%d.log", k)), hangLimit(tier))
				if err == nil {
					return
				}
				if ee, ok := err.(*exec.ExitError); ok && ee.ExitCode() == 98 {
					if last := lastEnded(filepath.Join(outDir, fmt.Sprintf("progress.%d.log", k))); last >= 0 {
						from = last + 1
						continue
					}
				}
				// the worker died: find the case it was in
				idx, done := lastBegun(filepath.Join(outDir, fmt.Sprintf("progress.%d.log", k)))
				if done || idx < 0 {
					mu.Lock()
					infraErr = fmt.Errorf("worker %d failed outside a case: %v\n%s", k, err, tail(stderr.String(), 2000))
					mu.Unlock()
					return
				}
				code := -1
				if ee, ok := err.(*exec.ExitError); ok {
					code = ee.ExitCode()
				}
				if code == 98 {
					// the worker finished a case, reported what it found and asked for a fresh process
					if last := lastEnded(filepath.Join(outDir, fmt.Sprintf("progress.%d.log", k))); last >= 0 {
						from = last + 1
						continue
					}
				}
				if code == 97 {
					mu.Lock()
					infraErr = fmt.Errorf("worker %d reported an infrastructure error in case %d:\n%s", k, idx, tail(stderr.String(), 3000))
					mu.Unlock()
					return
				}
				class, sig := classifyDeath(code, stderr.String())
				rec := caseRec{"property": prop, "index": idx, "seed": seed, "class": class, "signature": sig,
					"detail": tail(stderr.String(), 1500), "died": true, "race_build": race}
				mu.Lock()
				crashes = append(crashes, rec)
				mu.Unlock()
				from = idx + 1
			}
		}(k)
	}
	wg.Wait()
	return crashes, infraErr
}

func hangLimit(tier string) time.Duration {
	if v := os.Getenv("VERIF_HANG_SECONDS"); v != "" {
		if n, err := strconv.Atoi(v); err == nil && n > 0 {
			return time.Duration(n) * time.Second
		}
	}
	if tier == "thorough" {
		return 1800 * time.Second
	}
	return 300 * time.Second
}

// runWatched runs a worker and kills it when its progress file has not grown for
// `limit` (backstop for hangs the simulated scheduler cannot see, e.g. a lock that
// stays locked after the schedule has ended).
func runWatched(c *exec.Cmd, progress string, limit time.Duration) error {
	if err := c.Start(); err != nil {
		return err
	}
	done := make(chan error, 1)
	go func() { done <- c.Wait() }()
	lastSize, lastChange := int64(-1), time.Now()
	tick := time.NewTicker(2 * time.Second)
	defer tick.Stop()
	for {
		select {
		case err := <-done:
			return err
		case <-tick.C:
			if fi, err := os.Stat(progress); err == nil && fi.Size() != lastSize {
				lastSize, lastChange = fi.Size(), time.Now()
			}
			if time.Since(lastChange) > limit {
				c.Process.Kill()
				<-done
				return fmt.Errorf("signal: killed (no progress for %v)", limit)
			}
		}
	}
}

func raceEnv(outDir string, race bool) string {
	if race {
		return "GORACE=log_path=" + filepath.Join(outDir, "race") + " halt_on_error=0 history_size=7 exitcode=0"
	}
	return "GORACE=halt_on_error=0"
}

func sanitize(s string) string {
	var b strings.Builder
	for _, c := range s {
		if (c >= 'a' && c <= 'z') || (c >= 'A' && c <= 'Z') || (c >= '0' && c <= '9') || c == '-' {
			b.WriteRune(c)
		} else {
			b.WriteByte('_')
		}
	}
	return b.String()
}

func oneLine(s string, n int) string {
	s = strings.ReplaceAll(s, "\n", " | ")
	if len(s) > n {
		s = s[:n] + "…"
	}
	return s
}

func caseSize(c caseRec) int {
	b, _ := json.Marshal(c)
	return len(b)
}

func lastBegun(progress string) (idx int, done bool) {
	b, err := os.ReadFile(progress)
	if err != nil {
		return -1, false
	}
	idx = -1
	open := false
	for _, l := range strings.Split(string(b), "\n") {
		f := strings.Fields(l)
		if len(f) == 0 {
			continue
		}
		switch f[0] {
		case "B":
			idx, _ = strconv.Atoi(f[1])
			open = true
		case "E":
			open = false
		case "DONE":
			done = true
		}
	}
	if !open {
		return -1, done
	}
	return idx, false
}

// lastEnded returns the index of the last case a worker completed.
func lastEnded(progress string) int {
	b, err := os.ReadFile(progress)
	if err != nil {
		return -1
	}
	last := -1
	for _, l := range strings.Split(string(b), "\n") {
		f := strings.Fields(l)
		if len(f) >= 2 && f[0] == "E" {
			last, _ = strconv.Atoi(f[1])
		}
	}
	return last
}

// classifyDeath derives class and signature from how a worker process died.
func classifyDeath(code int, stderr string) (class, sig string) {
	switch {
	case code == 7:
		return "deadlock", "deadlock"
	case strings.Contains(stderr, "stack overflow") || strings.Contains(stderr, "goroutine stack exceeds"):
		return "fatal", "stack-overflow@" + firstLibFrame(stderr)
	case strings.Contains(stderr, "out of memory") || strings.Contains(stderr, "cannot allocate memory"):
		return "fatal", "out-of-memory@" + firstLibFrame(stderr)
	case strings.Contains(stderr, "fatal error:"):
		i := strings.Index(stderr, "fatal error:")
		l := stderr[i:]
		if j := strings.Index(l, "\n"); j > 0 {
			l = l[:j]
		}
		return "fatal", strings.TrimSpace(strings.TrimPrefix(l, "fatal error:")) + "@" + firstLibFrame(stderr)
	case strings.Contains(stderr, "panic:"):
		return "fatal", "panic@" + firstLibFrame(stderr)
	case strings.Contains(stderr, "signal: killed") || code == -1:
		return "fatal", "killed"
	}
	return "fatal", fmt.Sprintf("exit-%d", code)
}

func firstLibFrame(stderr string) string {
	for _, l := range strings.Split(stderr, "\n") {
		l = strings.TrimSpace(l)
		if strings.HasPrefix(l, "github.com/jsightapi/") && !strings.Contains(l, "/zzverif") {
			if i := strings.Index(l, "("); i > 0 {
				// keep "pkg.Func" or "pkg.(*T).Method"
				fn := l
				if j := strings.LastIndex(l, "("); j > 0 && !strings.HasSuffix(l[:j], ".") {
					fn = l[:j]
				}
				return strings.TrimPrefix(fn, "github.com/jsightapi/")
			}
			return strings.TrimPrefix(l, "github.com/jsightapi/")
		}
	}
	return "?"
}

func runWorkerBin(s *scratch, race bool, timeout time.Duration, args ...string) (string, error) {
	bin := s.worker
	if race && s.workerRc != "" {
		bin = s.workerRc
	}
	c := exec.Command(bin, args...)
	c.Env = append(s.env(), raceEnv(filepath.Join(s.dir, "replay-race"), race && s.workerRc != ""))
	var out, errb bytes.Buffer
	c.Stdout = &out
	c.Stderr = &errb
	if err := c.Start(); err != nil {
		return "", err
	}
	done := make(chan error, 1)
	go func() { done <- c.Wait() }()
	select {
	case err := <-done:
		if err != nil {
			return out.String(), fmt.Errorf("%v: %s", err, tail(errb.String(), 1500))
		}
		return out.String(), nil
	case <-time.After(timeout):
		c.Process.Kill()
		<-done
		return out.String(), fmt.Errorf("timeout after %v", timeout)
	}
}

type replayResult struct {
	violated bool
	died     bool
	infra    bool
	class    string
	sig      string
	detail   string
}

var replayCounter int
var replayMu sync.Mutex

// replayCase runs one case in a fresh worker process.
func replayCase(s *scratch, c caseRec, timeout time.Duration) replayResult {
	replayMu.Lock()
	replayCounter++
	n := replayCounter
	replayMu.Unlock()
	f := filepath.Join(s.dir, fmt.Sprintf("replay-%d.json", n))
	b, _ := json.Marshal(c)
	os.WriteFile(f, b, 0o644)
	defer os.Remove(f)
	bin := s.worker
	isRace, _ := c["race_build"].(bool)
	isRace = isRace && s.workerRc != ""
	if isRace {
		bin = s.workerRc
		os.MkdirAll(filepath.Join(s.dir, "replay-race"), 0o755)
	}
	cmd := exec.Command(bin, "replay", f)
	cmd.Env = append(s.env(), raceEnv(filepath.Join(s.dir, "replay-race"), isRace))
	var out, errb bytes.Buffer
	cmd.Stdout = &out
	cmd.Stderr = &errb
	if err := cmd.Start(); err != nil {
		return replayResult{infra: true, detail: err.Error()}
	}
	done := make(chan error, 1)
	go func() { done <- cmd.Wait() }()
	var err error
	select {
	case err = <-done:
	case <-time.After(timeout):
		cmd.Process.Kill()
		<-done
		return replayResult{violated: true, died: true, class: "hang", sig: "hang", detail: "replay did not finish in " + timeout.String()}
	}
	if err != nil {
		code := -1
		if ee, ok := err.(*exec.ExitError); ok {
			code = ee.ExitCode()
		}
		if code == 97 {
			return replayResult{infra: true, detail: tail(errb.String(), 1500)}
		}
		class, sig := classifyDeath(code, errb.String())
		return replayResult{violated: true, died: true, class: class, sig: sig, detail: tail(errb.String(), 1500)}
	}
	var r struct {
		Violated  bool   `json:"violated"`
		Class     string `json:"class"`
		Signature string `json:"signature"`
		Detail    string `json:"detail"`
	}
	lines := strings.Split(strings.TrimSpace(out.String()), "\n")
	if err := json.Unmarshal([]byte(lines[len(lines)-1]), &r); err != nil {
		return replayResult{infra: true, detail: "unparsable replay output: " + tail(out.String(), 500)}
	}
	return replayResult{violated: r.Violated, class: r.Class, sig: r.Signature, detail: r.Detail}
}

func cmdReplay(path string) int {
	b, err := os.ReadFile(path)
	if err != nil {
		return infra("%v", err)
	}
	var c caseRec
	if err := json.Unmarshal(b, &c); err != nil {
		return infra("replay file: %v", err)
	}
	prop := fmt.Sprint(c["property"])
	s, rc := buildScratch(prop+"-replay", prop == "C16")
	if rc != 0 {
		return rc
	}
	defer s.cleanup()
	res := replayCase(s, c, 300*time.Second)
	if res.infra {
		return infra("replay: %s", res.detail)
	}
	if !res.violated {
		fmt.Printf("simcheck: replay of %s: no violation on the current tree (recorded: %v/%v)\n", path, c["class"], c["signature"])
		return 0
	}
	fmt.Printf("VIOLATION property=%s replay=%s\n", prop, path)
	fmt.Printf("  class=%s signature=%s detail=%s\n", res.class, res.sig, oneLine(res.detail, 400))
	if res.class != fmt.Sprint(c["class"]) || res.sig != fmt.Sprint(c["signature"]) {
		fmt.Printf("  note: recorded class/signature was %v/%v\n", c["class"], c["signature"])
	}
	return 1
}

// ------------------------------------------------------------------ known findings

func loadKnown(prop string) map[string]string {
	out := map[string]string{}
	b, err := os.ReadFile(filepath.Join(verifDir, "known_findings.txt"))
	if err != nil {
		return out
	}
	for _, l := range strings.Split(string(b), "\n") {
		l = strings.TrimSpace(l)
		if !strings.HasPrefix(l, "finding:") {
			continue
		}
		rest := strings.TrimSpace(strings.TrimPrefix(l, "finding:"))
		f := strings.Fields(rest)
		if len(f) < 2 || f[0] != "property="+prop || !strings.HasPrefix(f[1], "signature=") {
			continue
		}
		sig := strings.TrimPrefix(f[1], "signature=")
		sig = strings.ReplaceAll(sig, "\\s", " ")
		out[sig] = strings.TrimSpace(strings.Join(f[2:], " "))
	}
	return out
}

// ------------------------------------------------------------------ stats

func aggregateStats(outDirs []string) map[string]any {
	agg := map[string]any{}
	distinct := map[string]map[string]bool{"distinct": {}, "distinct_nontrivial_keys": {}}
	var files []string
	for _, d := range outDirs {
		ff, _ := filepath.Glob(filepath.Join(d, "stats.*.jsonl"))
		sort.Strings(ff)
		files = append(files, ff...)
	}
	for _, f := range files {
		b, err := os.ReadFile(f)
		if err != nil {
			continue
		}
		for _, line := range strings.Split(strings.TrimSpace(string(b)), "\n") {
			var st map[string]any
			dec := json.NewDecoder(strings.NewReader(line))
			dec.UseNumber()
			if dec.Decode(&st) != nil {
				continue
			}
			mergeStats(agg, st, distinct)
		}
	}
	agg["distinct_count"] = float64(len(distinct["distinct"]))
	agg["distinct_nontrivial"] = float64(len(distinct["distinct_nontrivial_keys"]))
	return agg
}

func mergeStats(agg, st map[string]any, distinct map[string]map[string]bool) {
	for k, v := range st {
		switch x := v.(type) {
		case json.Number:
			if f, err := x.Float64(); err == nil {
				if k == "wall_s" || strings.HasPrefix(k, "max_") {
					if old, _ := agg[k].(float64); f > old {
						agg[k] = f
					}
					continue
				}
				old, _ := agg[k].(float64)
				agg[k] = old + f
			}
		case bool:
			old, _ := agg[k].(bool)
			agg[k] = old || x
		case map[string]any:
			sub, _ := agg[k].(map[string]any)
			if sub == nil {
				sub = map[string]any{}
				agg[k] = sub
			}
			mergeStats(sub, x, nil)
		case []any:
			if set, ok := distinct[k]; ok && distinct != nil {
				for _, e := range x {
					set[fmt.Sprint(e)] = true
				}
				continue
			}
			old, _ := agg[k].([]any)
			if len(old) < 12 {
				room := 12 - len(old)
				if len(x) > room {
					x = x[:room]
				}
				agg[k] = append(old, x...)
			}
		}
	}
}

func num(m map[string]any, k string) int {
	f, _ := m[k].(float64)
	return int(f)
}

package simrt

import (
	"reflect"
	"sync"
)

// Channel and WaitGroup operations of the code under test. Channels stay real channels (their
// happens-before edges are the real ones). Under a simulated schedule an operation first tries
// its non-blocking form; if that would block, the goroutine parks until some other goroutine has
// made progress and then tries again — so "blocked" is a state the scheduler knows, and a run in
// which every goroutine is parked is reported as a deadlock.
//
// Unbuffered channels need a partner that is really waiting; none ever is under a scheduler that
// runs one goroutine at a time. They are therefore served through a rendezvous table keyed by the
// channel: the first party parks in the table, the second completes the transfer. A package-level
// array of mutexes gives the race detector the sender -> receiver edge of each transfer.

const (
	siteChan = -13
	siteWG   = -14
)

type rendezvous struct {
	// mu guards the fields below and is the synchronisation the race detector sees between the
	// users of one unbuffered channel (a real unbuffered channel orders both parties as well)
	mu     sync.Mutex
	hasVal bool        // a sender is parked with val
	val    interface{} // the value in flight
	taken  bool        // the receiver has taken the parked sender's value
	wantR  int         // receivers parked
	gift   bool        // a value delivered to a parked receiver
	closed bool
}

const rvSlots = 4096

var (
	rvKeys [rvSlots]uintptr
	rvVals [rvSlots]*rendezvous
)

// rvLookup finds (or creates) the rendezvous of a channel. No map and no lock: only the one
// running goroutine of the schedule gets here, and the race detector must not see this table.
//
//go:norace
func rvLookup(p uintptr) *rendezvous {
	i := int((p >> 4) % rvSlots)
	for n := 0; n < rvSlots; n++ {
		if rvKeys[i] == p {
			return rvVals[i]
		}
		if rvKeys[i] == 0 {
			rvKeys[i] = p
			rvVals[i] = &rendezvous{}
			return rvVals[i]
		}
		i = (i + 1) % rvSlots
	}
	panic("simrt: rendezvous table full")
}

func rvOf(ch interface{}) *rendezvous { return rvLookup(reflect.ValueOf(ch).Pointer()) }

// ChanSend is `ch <- v`.
func ChanSend[T any](ch chan<- T, v T) {
	if !schedOn {
		ch <- v
		return
	}
	Yield(siteChan)
	if cap(ch) > 0 {
		for {
			sent := false
			select { // a send on a closed channel panics, as it should
			case ch <- v:
				sent = true
			default:
			}
			if sent {
				progress()
				return
			}
			waitChange(siteChan)
		}
	}
	r := rvOf(ch)
	for {
		r.mu.Lock()
		if r.closed {
			r.mu.Unlock()
			panic("send on closed channel")
		}
		if r.wantR > 0 && !r.gift && !r.hasVal {
			r.val, r.gift = v, true
			r.wantR--
			r.mu.Unlock()
			progress()
			return
		}
		if !r.hasVal {
			r.val, r.hasVal, r.taken = v, true, false
			r.mu.Unlock()
			progress()
			for {
				r.mu.Lock()
				taken, closed := r.taken, r.closed
				if taken {
					r.taken = false
				}
				r.mu.Unlock()
				if taken {
					return
				}
				if closed {
					panic("send on closed channel")
				}
				waitChange(siteChan)
			}
		}
		r.mu.Unlock()
		waitChange(siteChan)
	}
}

// ChanRecv2 is `v, ok := <-ch`.
func ChanRecv2[T any](ch <-chan T) (T, bool) {
	if !schedOn {
		v, ok := <-ch
		return v, ok
	}
	Yield(siteChan)
	if cap(ch) > 0 {
		for {
			select {
			case v, ok := <-ch:
				progress()
				return v, ok
			default:
			}
			waitChange(siteChan)
		}
	}
	r := rvOf(ch)
	var zero T
	registered := false
	for {
		r.mu.Lock()
		if r.hasVal {
			v, _ := r.val.(T)
			r.val, r.hasVal, r.taken = nil, false, true
			if registered {
				r.wantR--
			}
			r.mu.Unlock()
			progress()
			return v, true
		}
		if registered && r.gift {
			v, _ := r.val.(T)
			r.val, r.gift = nil, false
			r.mu.Unlock()
			progress()
			return v, true
		}
		if r.closed {
			if registered {
				r.wantR--
			}
			r.mu.Unlock()
			return zero, false
		}
		if !registered {
			r.wantR++
			registered = true
			r.mu.Unlock()
			progress()
		} else {
			r.mu.Unlock()
		}
		waitChange(siteChan)
	}
}

// ChanRecv is `<-ch`.
func ChanRecv[T any](ch <-chan T) T {
	v, _ := ChanRecv2(ch)
	return v
}

// ChanClose is `close(ch)`.
func ChanClose[T any](ch chan<- T) {
	if schedOn {
		Yield(siteChan)
		if cap(ch) == 0 {
			r := rvOf(ch)
			r.mu.Lock()
			r.closed = true
			r.mu.Unlock()
		}
		progress()
	}
	close(ch)
}

// WaitGroup has the method set of sync.WaitGroup.
type WaitGroup struct {
	real sync.WaitGroup
	n    int
}

func (w *WaitGroup) Add(delta int) {
	w.real.Add(delta)
	if schedOn {
		wgAdd(w, delta)
	}
}

func (w *WaitGroup) Done() { w.Add(-1) }

func (w *WaitGroup) Wait() {
	if schedOn {
		Yield(siteWG)
		for wgCount(w) > 0 {
			waitChange(siteWG)
		}
	}
	w.real.Wait()
}

//go:norace
func wgAdd(w *WaitGroup, d int) { w.n += d; chanEpoch++ }

//go:norace
func wgCount(w *WaitGroup) int { return w.n }

// ResetChannels forgets the rendezvous table (a new execution starts).
//
//go:norace
func ResetChannels() {
	for i := range rvKeys {
		rvKeys[i] = 0
		rvVals[i] = nil
	}
}

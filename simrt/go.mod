module verif.local/simrt

go 1.20

module simrt

go 1.19

// Package simrt is the runtime of the deterministic simulator.
//
// The code under test (a scratch copy of /repo and of its schema dependency) is
// rewritten by cmd/simrewrite so that every source of nondeterminism goes
// through this package: file access, map iteration order, sync primitives,
// pools, clock, RNG, recover() and (optionally) statement-level yield points.
//
// With Active == false every seam is a pass-through to the real thing.
//
// State that is touched from several simulated goroutines (decision log, event
// hash, scheduler, lock models, tick counter) lives in fixed-size arrays and is
// only accessed from //go:norace functions: the simulated goroutines are
// strictly serialised by the scheduler, but through a channel the race
// detector cannot see (sched.go), so the detector must not look at this state.
package simrt

import (
	"fmt"
	"runtime"
)

// Decision kinds.
const (
	KSched      = 1 // which goroutine runs next (choice 0 = keep running / lowest id)
	KMapOrder   = 2 // order of one visit of one map range (0 asc, 1 desc, >=2 shuffle seed)
	KPoolGet    = 3 // which pooled object Get returns (0 = most recent; n-1 = New)
	KPoolDrop   = 4 // Put drops the object (0 = keep)
	KCallback   = 5 // callback fault (0 = none)
	KClock      = 6 // reserved
	KLockCommit = 7 // a waiting writer announces itself (0 = not yet)
	KDirOrder   = 8 // order in which an opened directory lists its entries (0 = ascending by name)
)

// Decision is one recorded nondeterministic choice.
type Decision struct {
	K uint8 // kind
	S int32 // site
	N int32 // arity
	C int32 // choice
}

const maxDec = 1 << 18

var (
	// Active switches every seam from pass-through to simulation.
	Active bool

	rng uint64

	decs     [maxDec]Decision
	nDec     int
	decOver  bool // more than maxDec decisions: log incomplete, run cannot be replayed
	forced   [maxDec]Decision
	nForced  int
	forcedOn bool
	forcedAt int

	evHash  uint64
	evCount uint64
	evSeq   int64

	ticks      uint64
	softBudget uint64 = ^uint64(0)
	hardBudget uint64 = ^uint64(0)
	softHit    bool

	runtimeErrs      int
	runtimeErrSite   int32
	runtimeErrFirst  string
	runtimeErrOrigin string
)

// BudgetExceeded is the panic value used to stop a run that exceeded the hard
// step budget or the FS-call cap. It deliberately does not implement error, and
// Recovered re-panics it, so no recover() in the code under test can swallow it.
type BudgetExceeded struct{ What string }

func (b BudgetExceeded) String() string { return "simrt: budget exceeded: " + b.What }

// Reset prepares a new run. seed drives every PRNG-made choice.
//
//go:norace
func Reset(seed uint64) {
	rng = seed*0x9E3779B97F4A7C15 + 0x1234567
	if rng == 0 {
		rng = 1
	}
	nDec, decOver = 0, false
	forcedOn, nForced, forcedAt = false, 0, 0
	evHash, evCount, evSeq = 1469598103934665603, 0, 0
	ticks, softHit = 0, false
	softBudget, hardBudget = ^uint64(0), ^uint64(0)
	gcEvery, nextGC = 0, ^uint64(0)
	runtimeErrs, runtimeErrSite, runtimeErrFirst, runtimeErrOrigin = 0, 0, "", ""
	resetMapStats()
	resetPoolStats()
	resetSchedStats()
	ResetChannels()
}

// SetBudget sets the soft and hard step budgets of the current run.
//
//go:norace
func SetBudget(soft, hard uint64) { softBudget, hardBudget = soft, hard }

// Force makes the run replay the given decisions instead of drawing them.
//
//go:norace
func Force(dd []Decision) {
	n := len(dd)
	if n > maxDec {
		n = maxDec
	}
	for i := 0; i < n; i++ {
		forced[i] = dd[i]
	}
	nForced, forcedOn, forcedAt = n, true, 0
}

// Decisions returns a copy of the decisions made so far in this run.
//
//go:norace
func Decisions() ([]Decision, bool) {
	out := make([]Decision, nDec)
	for i := 0; i < nDec; i++ {
		out[i] = decs[i]
	}
	return out, !decOver
}

// Rand returns the next value of the run's PRNG (xorshift64*).
//
//go:norace
func Rand() uint64 {
	x := rng
	x ^= x >> 12
	x ^= x << 25
	x ^= x >> 27
	rng = x
	return x * 0x2545F4914F6CDD1D
}

// RandN returns a PRNG value in [0,n).
//
//go:norace
func RandN(n int) int {
	if n <= 1 {
		return 0
	}
	return int(Rand() % uint64(n))
}

// Decide records (or, when replaying, overrides) one choice in [0,n).
// proposed is what the caller's policy drew from the PRNG. A forced choice
// that does not fit (kind mismatch, out of range, past the end) becomes 0, the
// "nothing unusual" choice of every kind.
//
//go:norace
func Decide(kind uint8, site int32, n int, proposed int) int {
	c := proposed
	if forcedOn {
		c = 0
		if forcedAt < nForced {
			f := forced[forcedAt]
			if f.K == kind && int(f.C) < n && f.C >= 0 {
				c = int(f.C)
			}
		}
		forcedAt++
	}
	if c < 0 || c >= n {
		c = 0
	}
	if nDec < maxDec {
		decs[nDec] = Decision{K: kind, S: site, N: int32(n), C: int32(c)}
		nDec++
	} else {
		decOver = true
	}
	Event(uint64(kind), uint64(uint32(site)), uint64(c))
	return c
}

// Event mixes one event into the run's event hash (FNV-1a style).
//
//go:norace
func Event(a, b, c uint64) {
	if DebugEvent != nil {
		DebugEvent(a, b, c)
	}
	h := evHash
	h = (h ^ a) * 1099511628211
	h = (h ^ b) * 1099511628211
	h = (h ^ c) * 1099511628211
	evHash = h
	evCount++
}

// Seq returns the next value of the run's global event sequence number
// (used to stamp invoke/return of recorded operations).
//
//go:norace
func Seq() int64 {
	evSeq++
	return evSeq
}

// DebugEvent, if set, sees every event (debugging aid for the determinism self-test).
var DebugEvent func(a, b, c uint64)

// EventHash returns the hash and count of all events of the run.
//
//go:norace
func EventHash() (uint64, uint64) { return evHash, evCount }

// Tick counts one step of the code under test (loop iteration / function
// entry). Reaching the hard budget stops the run with a BudgetExceeded panic.
//
//go:norace
func Tick() {
	ticks++
	if ticks >= softBudget || ticks >= nextGC {
		tickSlow()
	}
}

// SetGCEvery makes the current run collect garbage every n steps (0 = leave it to the runtime):
// memory that the code under test has dropped is reused early and often, so a result that depends
// on the identity of addresses (a cache keyed by a pointer value) shows up as a difference.
//
//go:norace
func SetGCEvery(n uint64) {
	gcEvery = n
	nextGC = ^uint64(0)
	if n != 0 {
		nextGC = ticks + n
	}
}

// ForcedGCs counts the collections forced so far in this process (evidence).
var ForcedGCs int

var gcEvery, nextGC uint64 = 0, ^uint64(0)

//go:norace
func tickSlow() {
	if ticks >= nextGC {
		nextGC = ticks + gcEvery
		ForcedGCs++
		runtime.GC()
		if ticks < softBudget {
			return
		}
	}
	softHit = true
	if ticks >= hardBudget {
		hardBudget = ^uint64(0) // fire once
		softBudget = ^uint64(0)
		panic(BudgetExceeded{What: "steps"})
	}
}

// Ticks returns the steps counted so far and whether the soft budget was hit.
//
//go:norace
func Ticks() (uint64, bool) { return ticks, softHit }

// Recovered is wrapped around every recover() of the code under test. It
// records recovered Go runtime faults with their site and re-panics the
// simulator's own budget panic.
//
//go:norace
func Recovered(r interface{}, site int32) interface{} {
	if r == nil {
		return nil
	}
	if b, ok := r.(BudgetExceeded); ok {
		panic(b)
	}
	if d, ok := r.(Deadlock); ok {
		panic(d)
	}
	if re, ok := r.(runtime.Error); ok {
		if runtimeErrs == 0 {
			runtimeErrSite = site
			runtimeErrFirst = re.Error()
			runtimeErrOrigin = panicOrigin()
		}
		runtimeErrs++
	}
	return r
}

// RecoveredRuntimeErrors reports Go runtime faults seen at recover() sites.
//
//go:norace
func RecoveredRuntimeErrors() (n int, firstSite int32, first string, origin string) {
	return runtimeErrs, runtimeErrSite, runtimeErrFirst, runtimeErrOrigin
}

// panicOrigin returns the function in which the Go runtime fault being
// recovered was raised: the first frame below the runtime's panic machinery.
func panicOrigin() string {
	pcs := make([]uintptr, 64)
	n := runtime.Callers(2, pcs)
	frames := runtime.CallersFrames(pcs[:n])
	seenPanic := false
	for {
		f, more := frames.Next()
		isRuntime := len(f.Function) > 8 && f.Function[:8] == "runtime."
		if isRuntime {
			seenPanic = true
		} else if seenPanic {
			return f.Function
		}
		if !more {
			return "?"
		}
	}
}

func fatalf(format string, a ...interface{}) {
	panic(fmt.Sprintf("simrt: internal error: "+format, a...))
}

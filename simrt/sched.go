package simrt

import (
	"sync"
	"syscall"
	"unsafe"
)

// The scheduler runs real goroutines one at a time. Handoff is a raw write(2)
// and a raw blocking read(2) on a per-goroutine pipe, issued from //go:norace
// functions: the kernel orders the goroutines in fact, but the race detector
// sees no synchronisation, so it still judges the code under test by the
// synchronisation that code contains.

const maxG = 256

const (
	gUnused = iota
	gReady
	gRunning
	gDone
)

const (
	wNone = iota
	wRLock
	wWLock
	wOnce
	wEpoch // waiting for "something changed" (channel and WaitGroup operations): enabled when chanEpoch > waitEpoch
)

type lockModel struct {
	writer  int32 // goroutine id + 1 holding exclusively, 0 = none
	readers int32
	// pendingW: writers that have "called Lock" and wait. A real RWMutex admits no new reader while
	// a writer waits (so a goroutine that takes the read lock twice deadlocks if a writer arrives in
	// between). Whether a waiting writer has already announced itself is a scheduling choice.
	pendingW int32
}

type onceModel struct {
	state int32 // 0 new, 1 running, 2 done
}

type gstate struct {
	rfd, wfd  uintptr
	status    int32
	waitKind  int32
	waitLock  *lockModel
	waitOnce  *onceModel
	waitEpoch uint64
	steps     uint64
}

// Deadlock is the panic value raised in the goroutine that detects that no
// goroutine can run although some are unfinished.
type Deadlock struct{ Blocked int }

func (d Deadlock) String() string { return "simrt: deadlock" }

// MaxSites bounds yield-site identifiers.
const MaxSites = 1 << 18

var (
	// On[site] enables the statement-level yield point `site` for this run.
	On [MaxSites]bool

	schedOn   bool
	gs        [maxG]gstate
	nG        int
	curG      int
	stayNum   int // P(stay with the running goroutine) = stayNum/1000
	stallG    int // goroutine that is not chosen while other work exists (-1 none)
	stallFrom uint64
	stallTo   uint64

	// OnDeadlock is called (from the detecting goroutine) when the run
	// deadlocks. It must not return.
	OnDeadlock func(blocked int)

	// stats (cumulative per process; reset by ResetStats)
	nSwitch     uint64
	nYield      uint64
	nLockWait   uint64
	nOnceWait   uint64
	nSwitchHot  uint64 // switches at a statement-level site (inside instrumented code)
	switchHash  uint64
	nDeadlock   uint64
	schedDecNum uint64
)

//go:norace
func resetSchedStats() {
	switchHash = 1469598103934665603
	schedDecNum = 0
}

// SchedStats returns cumulative scheduler counters.
//
//go:norace
func SchedStats() (switches, yields, lockWaits, onceWaits, hotSwitches uint64) {
	return nSwitch, nYield, nLockWait, nOnceWait, nSwitchHot
}

// SwitchHash identifies the interleaving of the current run: a hash over the
// sequence of (site, from, to) at context switches.
//
//go:norace
func SwitchHash() uint64 { return switchHash }

// SetSchedPolicy sets P(stay) in permille and an optional stalled goroutine.
//
//go:norace
func SetSchedPolicy(stayPermille int, stall int, from, to uint64) {
	stayNum, stallG, stallFrom, stallTo = stayPermille, stall, from, to
}

//go:norace
func gateRelease(g int) {
	var b [1]byte
	b[0] = 1
	for {
		n, _, e := syscall.Syscall(syscall.SYS_WRITE, gs[g].wfd, uintptr(unsafe.Pointer(&b[0])), 1)
		if n == 1 {
			return
		}
		if e == syscall.EINTR || e == syscall.EAGAIN {
			continue
		}
		panic("simrt: gate write failed")
	}
}

//go:norace
func gateWait(g int) {
	var b [1]byte
	for {
		n, _, e := syscall.Syscall(syscall.SYS_READ, gs[g].rfd, uintptr(unsafe.Pointer(&b[0])), 1)
		if n == 1 {
			return
		}
		if e == syscall.EINTR || e == syscall.EAGAIN {
			continue
		}
		panic("simrt: gate read failed")
	}
}

//go:norace
func enabled(g int) bool {
	s := &gs[g]
	if s.status == gDone || s.status == gUnused {
		return false
	}
	switch s.waitKind {
	case wRLock:
		return s.waitLock.writer == 0 && s.waitLock.pendingW == 0
	case wWLock:
		return s.waitLock.writer == 0 && s.waitLock.readers == 0
	case wOnce:
		return s.waitOnce.state != 1
	case wEpoch:
		return chanEpoch > s.waitEpoch
	}
	return true
}

// pick chooses the next goroutine to run among the enabled ones; -1 if none.
//
//go:norace
func pick(site int32) int {
	var en [maxG]int
	n := 0
	me := curG
	if me >= 0 && me < nG && enabled(me) {
		en[n] = me
		n++
	}
	for g := 0; g < nG; g++ {
		if g != me && enabled(g) {
			en[n] = g
			n++
		}
	}
	if n == 0 {
		return -1
	}
	if n == 1 {
		return en[0]
	}
	schedDecNum++
	p := 0
	if en[0] == me && RandN(1000) < stayNum {
		p = 0
	} else {
		p = RandN(n)
		// stalled goroutine: avoid it while the stall window is open
		if stallG >= 0 && schedDecNum >= stallFrom && schedDecNum < stallTo && en[p] == stallG {
			p = (p + 1) % n
		}
	}
	c := Decide(KSched, site, n, p)
	return en[c]
}

//go:norace
func switchTo(next int, site int32) {
	me := curG
	nSwitch++
	if site >= 0 {
		nSwitchHot++
	}
	h := switchHash
	h = (h ^ uint64(uint32(site))) * 1099511628211
	h = (h ^ uint64(me)<<8 ^ uint64(next)) * 1099511628211
	switchHash = h
	Event(7, uint64(uint32(site)), uint64(me)<<8|uint64(next))
	curG = next
	gs[next].status = gRunning
	gateRelease(next)
}

//go:norace
func deadlock() {
	nDeadlock++
	blocked := 0
	for g := 0; g < nG; g++ {
		if gs[g].status != gDone && gs[g].status != gUnused {
			blocked++
		}
	}
	if OnDeadlock != nil {
		OnDeadlock(blocked)
	}
	panic(Deadlock{Blocked: blocked})
}

// Yield is a scheduling point. Statement-level yield points are emitted by the
// rewriter as `if simrt.On[s] { simrt.Yield(s) }`; sync operations call
// yieldAt with a negative site.
//
//go:norace
func Yield(site int32) {
	if !schedOn {
		return
	}
	nYield++
	me := curG
	gs[me].steps++
	gs[me].status = gReady
	next := pick(site)
	if next < 0 {
		deadlock()
	}
	if next != me {
		switchTo(next, site)
		gateWait(me)
	}
	gs[me].status = gRunning
}

// waitFor parks the running goroutine until its request is grantable and the
// scheduler picks it.
//
//go:norace
func waitFor(kind int32, l *lockModel, o *onceModel, site int32) {
	me := curG
	s := &gs[me]
	s.waitKind, s.waitLock, s.waitOnce = kind, l, o
	s.status = gReady
	if !enabled(me) {
		if kind == wOnce {
			nOnceWait++
		} else {
			nLockWait++
		}
	}
	next := pick(site)
	if next < 0 {
		deadlock()
	}
	if next != me {
		switchTo(next, site)
		gateWait(me)
	}
	s.waitKind, s.waitLock, s.waitOnce = wNone, nil, nil
	s.status = gRunning
}

//go:norace
func finish() {
	me := curG
	gs[me].status = gDone
	chanEpoch++
	left := false
	for g := 0; g < nG; g++ {
		if gs[g].status != gDone && gs[g].status != gUnused {
			left = true
		}
	}
	if !left {
		return
	}
	next := pick(-9)
	if next < 0 {
		deadlock()
	}
	switchTo(next, -9)
}

// Scheduling reports whether a simulated schedule is running.
//
//go:norace
func Scheduling() bool { return schedOn }

// CurrentG returns the id of the running simulated goroutine.
//
//go:norace
func CurrentG() int { return curG }

//go:norace
func schedSetup(n int) {
	if n > maxG {
		panic("simrt: too many goroutines")
	}
	for g := 0; g < n; g++ {
		var p [2]int
		if err := syscall.Pipe(p[:]); err != nil {
			panic("simrt: pipe: " + err.Error())
		}
		gs[g] = gstate{rfd: uintptr(p[0]), wfd: uintptr(p[1]), status: gReady}
	}
	nG = n
	curG = -1
	heldLocks = 0
	schedOn = true
}

//go:norace
func schedTeardown() {
	schedOn = false
	for g := 0; g < nG; g++ {
		syscall.Close(int(gs[g].rfd))
		syscall.Close(int(gs[g].wfd))
		gs[g] = gstate{}
	}
	nG = 0
}

//go:norace
func schedStart() {
	first := pick(-8)
	curG = first
	gs[first].status = gRunning
	Event(7, 0, uint64(first))
	gateRelease(first)
}

//go:norace
func enter(g int) { gateWait(g) }

// ---- goroutines started by the code under test (`go f()` is rewritten to simrt.Go) ----

var (
	runWG       *sync.WaitGroup
	extraPanics []interface{}
	extraMu     sync.Mutex
	chanEpoch   uint64 // advanced by every successful channel/WaitGroup operation, spawn and exit
	nSpawned    uint64
)

// Spawned returns how many goroutines the code under test has started (cumulative).
//
//go:norace
func Spawned() uint64 { return nSpawned }

//go:norace
func addG() int {
	if nG >= maxG {
		panic("simrt: too many goroutines")
	}
	var p [2]int
	if err := syscall.Pipe(p[:]); err != nil {
		panic("simrt: pipe: " + err.Error())
	}
	g := nG
	gs[g] = gstate{rfd: uintptr(p[0]), wfd: uintptr(p[1]), status: gReady}
	nG++
	chanEpoch++
	nSpawned++
	return g
}

// Go is what a `go` statement of the code under test becomes. Outside a simulated schedule
// it is a plain go statement.
func Go(fn func()) {
	if !schedOn {
		go fn()
		return
	}
	g := addG()
	runWG.Add(1)
	go func() { // the real go statement gives the race detector the spawn edge
		defer runWG.Done()
		enter(g)
		func() {
			defer func() {
				if r := recover(); r != nil {
					if _, ok := r.(Deadlock); ok {
						panic(r)
					}
					// an unrecovered panic in a goroutine kills a real process
					extraMu.Lock()
					extraPanics = append(extraPanics, r)
					extraMu.Unlock()
				}
			}()
			fn()
		}()
		finish()
	}()
	Yield(-12)
}

// ExtraPanics returns (and forgets) the panics of goroutines started by the code under test.
func ExtraPanics() []interface{} {
	extraMu.Lock()
	defer extraMu.Unlock()
	out := extraPanics
	extraPanics = nil
	return out
}

// waitChange parks the running goroutine until another goroutine has made progress on a
// channel, a WaitGroup, a spawn or an exit; the caller then re-tries its operation.
//
//go:norace
func waitChange(site int32) {
	me := curG
	s := &gs[me]
	s.waitKind, s.waitEpoch = wEpoch, chanEpoch
	s.status = gReady
	next := pick(site)
	if next < 0 {
		deadlock()
	}
	if next != me {
		switchTo(next, site)
		gateWait(me)
	}
	s.waitKind = wNone
	s.status = gRunning
}

//go:norace
func progress() { chanEpoch++ }

// RunGoroutines runs the functions as simulated goroutines under the seeded
// scheduler and returns, per goroutine, the value it panicked with (nil if it
// returned normally). It returns when all have finished.
func RunGoroutines(fns []func()) []interface{} {
	n := len(fns)
	panics := make([]interface{}, n)
	schedSetup(n)
	var wg sync.WaitGroup
	runWG = &wg
	for i := 0; i < n; i++ {
		wg.Add(1)
		go func(i int) {
			defer wg.Done()
			enter(i)
			func() {
				defer func() {
					if r := recover(); r != nil {
						if _, ok := r.(Deadlock); ok {
							panic(r)
						}
						panics[i] = r
					}
				}()
				fns[i]()
			}()
			finish()
		}(i)
	}
	schedStart()
	wg.Wait()
	schedTeardown()
	return panics
}

package simrt

import (
	"fmt"
	"reflect"
	"sort"
)

// Map policies (per run).
const (
	MapNative = iota // pass-through: the runtime's own order
	MapAsc           // ascending by formatted key
	MapDesc          // descending
	MapRandom        // seeded shuffle per visit
	MapRot           // ascending rotated by half
)

const maxMapSites = 4096

var (
	mapPolicy   int
	mapVisits   [maxMapSites]uint32 // visits of the site
	mapVisits2  [maxMapSites]uint32 // visits with >= 2 keys
	mapNonIdent [maxMapSites]uint32 // visits with >= 2 keys in non-ascending order
	mapOrdHash  [maxMapSites]uint64 // xor of hashes of (n, choice): distinct orders measure
)

//go:norace
func resetMapStats() {
	// stats are cumulative over the process; only the policy is per run
}

// SetMapPolicy sets the map iteration policy of the current run.
//
//go:norace
func SetMapPolicy(p int) { mapPolicy = p }

// MapSiteStats returns visit counters of a map-range site.
//
//go:norace
func MapSiteStats(site int) (visits, visits2, nonIdent uint32) {
	if site < 0 || site >= maxMapSites {
		return 0, 0, 0
	}
	return mapVisits[site], mapVisits2[site], mapNonIdent[site]
}

// DebugMap, if set, sees every simulated map range (debugging aid).
var DebugMap func(site, n int, typ string)

// Pair is one entry of a map range under simulation: the key, and the live map
// the value is read from when the iteration reaches it (so that entries deleted
// during the loop are skipped and updated values are seen, as the Go
// specification requires).
type Pair[K comparable, V any] struct {
	m map[K]V
	k K
}

// KV returns the key, its current value, and whether the entry still exists.
func (p Pair[K, V]) KV() (K, V, bool) {
	v, ok := p.m[p.k]
	return p.k, v, ok
}

// Pairs is what `range m` is rewritten to.
func Pairs[K comparable, V any](m map[K]V, site int) []Pair[K, V] {
	n := len(m)
	out := make([]Pair[K, V], 0, n)
	for k := range m {
		out = append(out, Pair[K, V]{m, k})
	}
	if DebugMap != nil {
		DebugMap(site, n, fmt.Sprintf("%T", m))
	}
	if !Active || mapPolicy == MapNative || n < 2 {
		if Active {
			noteMapVisit(site, n, false)
		}
		return out
	}
	sortPairs(out)
	c := mapChoice(site, n)
	switch {
	case c == 0:
	case c == 1:
		for i, j := 0, n-1; i < j; i, j = i+1, j-1 {
			out[i], out[j] = out[j], out[i]
		}
	case c == 2:
		h := n / 2
		rot := make([]Pair[K, V], 0, n)
		rot = append(rot, out[h:]...)
		rot = append(rot, out[:h]...)
		out = rot
	default:
		// Fisher-Yates driven by a local xorshift seeded with the choice.
		x := uint64(c)*0x9E3779B97F4A7C15 + 77
		for i := n - 1; i > 0; i-- {
			x ^= x >> 12
			x ^= x << 25
			x ^= x >> 27
			j := int((x * 0x2545F4914F6CDD1D) % uint64(i+1))
			out[i], out[j] = out[j], out[i]
		}
	}
	noteMapVisit(site, n, c != 0)
	return out
}

//go:norace
func mapChoice(site, n int) int {
	var p int
	switch mapPolicy {
	case MapAsc:
		p = 0
	case MapDesc:
		p = 1
	case MapRot:
		p = 2
	default:
		p = 3 + RandN(60000)
	}
	return Decide(KMapOrder, int32(site), 1<<16, p)
}

//go:norace
func noteMapVisit(site, n int, nonIdent bool) {
	if site < 0 || site >= maxMapSites {
		return
	}
	mapVisits[site]++
	if n >= 2 {
		mapVisits2[site]++
		if nonIdent {
			mapNonIdent[site]++
		}
	}
}

// sortPairs puts the pairs in ascending key order. It must not call methods of
// the key type (a String method is code under test: calling it in the native,
// random order of the map would smuggle that order into the run), so keys are
// compared by their underlying value via reflection.
func sortPairs[K comparable, V any](pp []Pair[K, V]) {
	if len(pp) == 0 {
		return
	}
	switch any(pp[0].k).(type) {
	case string:
		sort.Slice(pp, func(i, j int) bool { return any(pp[i].k).(string) < any(pp[j].k).(string) })
		return
	case int:
		sort.Slice(pp, func(i, j int) bool { return any(pp[i].k).(int) < any(pp[j].k).(int) })
		return
	}
	type keyed struct {
		kind int // 0 int, 1 uint, 2 float, 3 string, 4 other
		i    int64
		u    uint64
		f    float64
		s    string
		idx  int
	}
	ks := make([]keyed, len(pp))
	for i := range pp {
		v := reflect.ValueOf(pp[i].k)
		k := keyed{idx: i, kind: 4}
		switch v.Kind() {
		case reflect.Int, reflect.Int8, reflect.Int16, reflect.Int32, reflect.Int64:
			k.kind, k.i = 0, v.Int()
		case reflect.Uint, reflect.Uint8, reflect.Uint16, reflect.Uint32, reflect.Uint64, reflect.Uintptr:
			k.kind, k.u = 1, v.Uint()
		case reflect.Float32, reflect.Float64:
			k.kind, k.f = 2, v.Float()
		case reflect.String:
			k.kind, k.s = 3, v.String()
		case reflect.Bool:
			k.kind = 0
			if v.Bool() {
				k.i = 1
			}
		default:
			// structs, arrays, pointers, interfaces: the Go-syntax form of the value, which
			// does not call String/Error methods (%#v would call GoString, which is rare)
			k.s = fmt.Sprintf("%#v", pp[i].k)
		}
		ks[i] = k
	}
	sort.SliceStable(ks, func(a, b int) bool {
		x, y := ks[a], ks[b]
		if x.kind != y.kind {
			return x.kind < y.kind
		}
		switch x.kind {
		case 0:
			return x.i < y.i
		case 1:
			return x.u < y.u
		case 2:
			return x.f < y.f
		}
		return x.s < y.s
	})
	cp := make([]Pair[K, V], len(pp))
	for i, k := range ks {
		cp[i] = pp[k.idx]
	}
	copy(pp, cp)
}

package simrt

import (
	"fmt"
	"reflect"
	"sort"
	"sync"
)

// Wrappers with the method sets of sync.Mutex, sync.RWMutex, sync.Once and
// sync.Pool. Each embeds the real primitive, which is still operated (it can
// never block under the scheduler, because the model grants first), so the race
// detector sees exactly the acquire/release edges of the code under test.

// Sites for sync operations are negative constants (statement sites are >= 0).
const (
	siteLock    = -1
	siteUnlock  = -2
	siteRLock   = -3
	siteRUnlock = -4
	siteOnce    = -5
	sitePoolGet = -6
	sitePoolPut = -7
)

// ---------------------------------------------------------------- Mutex

type Mutex struct {
	real  sync.Mutex
	model lockModel
}

func (m *Mutex) Lock() {
	if schedOn {
		mLock(&m.model)
		m.real.Lock()
		return
	}
	if Active {
		// one goroutine only: a lock that cannot be taken now will never be released
		if !m.real.TryLock() {
			seqBlocked()
		}
		seqHeld++
		return
	}
	m.real.Lock()
}

func (m *Mutex) TryLock() bool {
	if schedOn {
		if !mTry(&m.model, true) {
			return false
		}
		if !m.real.TryLock() {
			fatalf("model granted a mutex the real one refused")
		}
		return true
	}
	return m.real.TryLock()
}

func (m *Mutex) Unlock() {
	m.real.Unlock()
	if schedOn {
		mUnlock(&m.model)
	} else if Active {
		seqHeld--
	}
}

// ---------------------------------------------------------------- RWMutex

type RWMutex struct {
	real  sync.RWMutex
	model lockModel
}

func (m *RWMutex) Lock() {
	if schedOn {
		mLock(&m.model)
		m.real.Lock()
		return
	}
	if Active {
		if !m.real.TryLock() {
			seqBlocked()
		}
		seqHeld++
		return
	}
	m.real.Lock()
}

func (m *RWMutex) Unlock() {
	m.real.Unlock()
	if schedOn {
		mUnlock(&m.model)
	} else if Active {
		seqHeld--
	}
}

func (m *RWMutex) RLock() {
	if schedOn {
		mRLock(&m.model)
		m.real.RLock()
		return
	}
	if Active {
		if !m.real.TryRLock() {
			seqBlocked()
		}
		seqHeld++
		return
	}
	m.real.RLock()
}

func (m *RWMutex) RUnlock() {
	m.real.RUnlock()
	if schedOn {
		mRUnlock(&m.model)
	} else if Active {
		seqHeld--
	}
}

func (m *RWMutex) TryLock() bool {
	if schedOn {
		if !mTry(&m.model, true) {
			return false
		}
		if !m.real.TryLock() {
			fatalf("model granted a lock the real one refused")
		}
		return true
	}
	return m.real.TryLock()
}

func (m *RWMutex) TryRLock() bool {
	if schedOn {
		if !mTry(&m.model, false) {
			return false
		}
		if !m.real.TryRLock() {
			fatalf("model granted a read lock the real one refused")
		}
		return true
	}
	return m.real.TryRLock()
}

// RLocker mirrors (*sync.RWMutex).RLocker.
func (m *RWMutex) RLocker() sync.Locker { return (*rlocker)(m) }

type rlocker RWMutex

func (r *rlocker) Lock()   { (*RWMutex)(r).RLock() }
func (r *rlocker) Unlock() { (*RWMutex)(r).RUnlock() }

// seqHeld counts locks held in sequential (unscheduled) simulated executions.
var seqHeld int

// SeqHeldLocks returns the number of locks taken and not released outside a schedule.
//
//go:norace
func SeqHeldLocks() int { return seqHeld }

// ResetSeqHeld forgets the sequential lock count (a new execution starts).
//
//go:norace
func ResetSeqHeld() { seqHeld = 0 }

// seqBlocked: the only goroutine of a sequential execution wants a lock that is held —
// by an earlier execution that leaked it, or by itself. It can never proceed.
func seqBlocked() {
	panic(Deadlock{Blocked: 1})
}

// heldLocks counts lock grants that have not been released yet (under the
// scheduler). A non-zero value when all goroutines have finished is a leaked lock.
var heldLocks int

// HeldLocks returns the number of lock acquisitions not yet released.
//
//go:norace
func HeldLocks() int { return heldLocks }

//go:norace
func mLock(l *lockModel) {
	// does this writer announce itself (blocking new readers) while it waits? choice 0 = no
	committed := false
	if (l.writer != 0 || l.readers != 0) && nG > 1 {
		p := 0
		if RandN(1000) < 500 {
			p = 1
		}
		if Decide(KLockCommit, siteLock, 2, p) == 1 {
			committed = true
			l.pendingW++
		}
	}
	waitFor(wWLock, l, nil, siteLock)
	if committed {
		l.pendingW--
	}
	l.writer = int32(curG) + 1
	heldLocks++
}

//go:norace
func mRLock(l *lockModel) {
	waitFor(wRLock, l, nil, siteRLock)
	l.readers++
	heldLocks++
}

//go:norace
func mTry(l *lockModel, excl bool) bool {
	Yield(siteLock)
	if excl {
		if l.writer != 0 || l.readers != 0 {
			return false
		}
		l.writer = int32(curG) + 1
		heldLocks++
		return true
	}
	if l.writer != 0 {
		return false
	}
	l.readers++
	heldLocks++
	return true
}

//go:norace
func mUnlock(l *lockModel) {
	l.writer = 0
	heldLocks--
	Yield(siteUnlock)
}

//go:norace
func mRUnlock(l *lockModel) {
	if l.readers > 0 {
		l.readers--
	}
	heldLocks--
	Yield(siteRUnlock)
}

// ---------------------------------------------------------------- Once

type Once struct {
	real  sync.Once
	model onceModel
}

func (o *Once) Do(f func()) {
	if !schedOn {
		o.real.Do(f)
		return
	}
	first := onceEnter(&o.model)
	if first {
		defer onceLeave(&o.model)
	}
	o.real.Do(f)
}

//go:norace
func onceEnter(m *onceModel) bool {
	waitFor(wOnce, nil, m, siteOnce)
	if m.state == 0 {
		m.state = 1
		Yield(siteOnce) // let others arrive while the initialiser runs
		return true
	}
	return false
}

//go:norace
func onceLeave(m *onceModel) {
	m.state = 2
	Yield(siteOnce)
}

// ---------------------------------------------------------------- Pool

// Pool policies (per run).
const (
	PoolMostRecent = iota // the usual behaviour of sync.Pool on one P
	PoolOldest
	PoolRandom
	PoolAlwaysNew
	PoolCrossG // prefer an object put by another goroutine than the caller
)

const poolCap = 64

// poolItem remembers which "edge" it was published through: Put locks/unlocks
// edge e after storing, Get locks/unlocks the same edge before handing the
// object out, which gives the race detector the edge putter -> getter of this
// item. Edges are a fixed package-level array (a mutex allocated by the putter
// would itself be published without synchronisation); items share them round
// robin, as the real pool shares its 128 race addresses between objects.
type poolItem struct {
	x    interface{}
	by   int32
	edge int32
}

const nPoolEdges = 256

var (
	poolEdges [nPoolEdges]sync.Mutex
	poolEdgeN int32
)

type Pool struct {
	New func() interface{}

	real  sync.Pool
	items [poolCap]*poolItem
	n     int
	reg   bool
}

// Every pool used under simulation is registered so that Reset can empty it:
// the content of a pool is process history, and a run must not depend on
// history that is not part of its case (history is re-created explicitly by
// executing other projects first).
const maxPools = 256

var (
	allPools [maxPools]*Pool
	nPools   int
)

//go:norace
func registerPool(p *Pool) {
	if p.reg {
		return
	}
	p.reg = true
	if nPools < maxPools {
		allPools[nPools] = p
		nPools++
	}
}

//go:norace
func clearPools() {
	for i := 0; i < nPools; i++ {
		p := allPools[i]
		for k := 0; k < p.n; k++ {
			p.items[k] = nil
		}
		p.n = 0
	}
}

var (
	poolPolicy   int
	poolDropProb int // permille
	nPoolGet     uint64
	nPoolReuse   uint64
	nPoolCross   uint64 // object handed to a different goroutine than the one that put it
	nPoolDrop    uint64
	nPoolNotLast uint64 // reuse of an object that was not the most recently put
)

// KeepPoolsOnce makes the next Reset leave the pools as they are: the execution that follows is
// part of a sequence (history, then the project) within one case, and what earlier executions of
// the sequence left in the pools is exactly the history under test.
var keepPoolsOnce bool

//go:norace
func KeepPoolsOnce() { keepPoolsOnce = true }

//go:norace
func resetPoolStats() {
	if keepPoolsOnce {
		keepPoolsOnce = false
		return
	}
	clearPools()
}

// SetPoolPolicy sets the pool policy and Put-drop probability of the run.
//
//go:norace
func SetPoolPolicy(p int, dropPermille int) { poolPolicy, poolDropProb = p, dropPermille }

// PoolStats returns cumulative pool counters.
//
//go:norace
func PoolStats() (gets, reuses, cross, drops, notLast uint64) {
	return nPoolGet, nPoolReuse, nPoolCross, nPoolDrop, nPoolNotLast
}

func (p *Pool) Get() interface{} {
	if !Active {
		x := p.real.Get()
		if x == nil && p.New != nil {
			x = p.New()
		}
		return x
	}
	x, e := poolChooseGet(p)
	if e < 0 {
		if p.New == nil {
			return nil
		}
		return p.New()
	}
	poolEdges[e].Lock()
	poolEdges[e].Unlock() //nolint:staticcheck // empty critical section: only the happens-before edge is wanted
	return x
}

func (p *Pool) Put(x interface{}) {
	if !Active {
		p.real.Put(x)
		return
	}
	if x == nil {
		return
	}
	e := poolAdmit(p)
	if e < 0 {
		return // dropped, as the real pool may
	}
	poolEdges[e].Lock()
	poolEdges[e].Unlock() //nolint:staticcheck
	poolStore(p, x, e)
	if schedOn {
		Yield(sitePoolPut)
	}
}

//go:norace
func poolChooseGet(p *Pool) (interface{}, int32) {
	registerPool(p)
	if schedOn {
		Yield(sitePoolGet)
	}
	nPoolGet++
	n := p.n
	if n == 0 {
		return nil, -1
	}
	// choices: 0 = most recent, 1..n-1 = older ones (n-1 = oldest), n = New
	prop := 0
	switch poolPolicy {
	case PoolMostRecent:
		prop = 0
	case PoolOldest:
		prop = n - 1
	case PoolRandom:
		prop = RandN(n + 1)
	case PoolAlwaysNew:
		prop = n
	case PoolCrossG:
		prop = 0
		for k := 0; k < n; k++ {
			if int(p.items[n-1-k].by) != curG {
				prop = k
				break
			}
		}
	}
	c := Decide(KPoolGet, 0, n+1, prop)
	if c == n {
		return nil, -1
	}
	i := n - 1 - c
	it := p.items[i]
	nPoolReuse++
	if schedOn && int(it.by) != curG {
		nPoolCross++
	}
	if i != n-1 {
		nPoolNotLast++
	}
	for k := i; k < n-1; k++ {
		p.items[k] = p.items[k+1]
	}
	p.n--
	p.items[p.n] = nil
	return it.x, it.edge
}

//go:norace
func poolAdmit(p *Pool) int32 {
	registerPool(p)
	drop := 0
	if poolDropProb > 0 && RandN(1000) < poolDropProb {
		drop = 1
	}
	full := p.n >= poolCap
	if poolDropProb > 0 {
		if Decide(KPoolDrop, 0, 2, drop) == 1 {
			nPoolDrop++
			return -1
		}
	}
	if full {
		return -1
	}
	poolEdgeN = (poolEdgeN + 1) % nPoolEdges
	return poolEdgeN
}

//go:norace
func poolStore(p *Pool, x interface{}, e int32) {
	if p.n >= poolCap {
		return
	}
	p.items[p.n] = &poolItem{x: x, by: int32(curG), edge: e}
	p.n++
}

// ---------------------------------------------------------------- sync.Map

// SyncMap has the method set of sync.Map. Storage is a real sync.Map (so the
// race detector sees what it would see); the simulator adds a scheduling point
// before every operation and decides the order in which Range visits entries.
type SyncMap struct {
	real sync.Map
}

const siteSyncMap = -11

func (m *SyncMap) yield() {
	if schedOn {
		Yield(siteSyncMap)
	}
}

func (m *SyncMap) Load(key interface{}) (interface{}, bool) { m.yield(); return m.real.Load(key) }
func (m *SyncMap) Store(key, value interface{})             { m.yield(); m.real.Store(key, value) }
func (m *SyncMap) Delete(key interface{})                   { m.yield(); m.real.Delete(key) }
func (m *SyncMap) LoadOrStore(key, value interface{}) (interface{}, bool) {
	m.yield()
	return m.real.LoadOrStore(key, value)
}
func (m *SyncMap) LoadAndDelete(key interface{}) (interface{}, bool) {
	m.yield()
	return m.real.LoadAndDelete(key)
}
func (m *SyncMap) Swap(key, value interface{}) (interface{}, bool) {
	m.yield()
	return m.real.Swap(key, value)
}
func (m *SyncMap) CompareAndSwap(key, old, new interface{}) bool {
	m.yield()
	return m.real.CompareAndSwap(key, old, new)
}
func (m *SyncMap) CompareAndDelete(key, old interface{}) bool {
	m.yield()
	return m.real.CompareAndDelete(key, old)
}

// Range visits a snapshot of the entries in an order chosen by the map-order
// policy of the run (sync.Map.Range promises no order and tolerates concurrent
// modification, so every order of a snapshot is a legal execution).
func (m *SyncMap) Range(f func(key, value interface{}) bool) {
	m.yield()
	if !Active || mapPolicy == MapNative {
		m.real.Range(f)
		return
	}
	var keys []interface{}
	m.real.Range(func(k, v interface{}) bool { keys = append(keys, k); return true })
	for _, k := range orderKeys(keys, maxMapSites-1) {
		v, ok := m.real.Load(k)
		if !ok {
			continue
		}
		if !f(k, v) {
			return
		}
	}
}

// orderKeys applies the map-order decision of the run to arbitrary keys.
func orderKeys(keys []interface{}, site int) []interface{} {
	n := len(keys)
	if n < 2 {
		return keys
	}
	sort.SliceStable(keys, func(a, b int) bool { return keyText(keys[a]) < keyText(keys[b]) })
	c := mapChoice(site, n)
	switch {
	case c == 0:
	case c == 1:
		for i, j := 0, n-1; i < j; i, j = i+1, j-1 {
			keys[i], keys[j] = keys[j], keys[i]
		}
	case c == 2:
		h := n / 2
		keys = append(append([]interface{}{}, keys[h:]...), keys[:h]...)
	default:
		x := uint64(c)*0x9E3779B97F4A7C15 + 77
		for i := n - 1; i > 0; i-- {
			x ^= x >> 12
			x ^= x << 25
			x ^= x >> 27
			j := int((x * 0x2545F4914F6CDD1D) % uint64(i+1))
			keys[i], keys[j] = keys[j], keys[i]
		}
	}
	noteMapVisit(site, n, c != 0)
	return keys
}

// keyText renders a key without calling its methods (see sortPairs).
func keyText(k interface{}) string {
	v := reflect.ValueOf(k)
	switch v.Kind() {
	case reflect.String:
		return "s" + v.String()
	case reflect.Int, reflect.Int8, reflect.Int16, reflect.Int32, reflect.Int64:
		return fmt.Sprintf("i%020d", v.Int()+(1<<62))
	case reflect.Uint, reflect.Uint8, reflect.Uint16, reflect.Uint32, reflect.Uint64, reflect.Uintptr:
		return fmt.Sprintf("u%020d", v.Uint())
	}
	return fmt.Sprintf("o%#v", k)
}

package simrt

import (
	"sync"
)

// Wrappers with the method sets of sync.Mutex, sync.RWMutex, sync.Once and
// sync.Pool. Each embeds the real primitive, which is still operated (it can
// never block under the scheduler, because the model grants first), so the race
// detector sees exactly the acquire/release edges of the code under test.

// Sites for sync operations are negative constants (statement sites are >= 0).
const (
	siteLock    = -1
	siteUnlock  = -2
	siteRLock   = -3
	siteRUnlock = -4
	siteOnce    = -5
	sitePoolGet = -6
	sitePoolPut = -7
)

// ---------------------------------------------------------------- Mutex

type Mutex struct {
	real  sync.Mutex
	model lockModel
}

func (m *Mutex) Lock() {
	if schedOn {
		mLock(&m.model)
	}
	m.real.Lock()
}

func (m *Mutex) TryLock() bool {
	if schedOn {
		if !mTry(&m.model, true) {
			return false
		}
		if !m.real.TryLock() {
			fatalf("model granted a mutex the real one refused")
		}
		return true
	}
	return m.real.TryLock()
}

func (m *Mutex) Unlock() {
	m.real.Unlock()
	if schedOn {
		mUnlock(&m.model)
	}
}

// ---------------------------------------------------------------- RWMutex

type RWMutex struct {
	real  sync.RWMutex
	model lockModel
}

func (m *RWMutex) Lock() {
	if schedOn {
		mLock(&m.model)
	}
	m.real.Lock()
}

func (m *RWMutex) Unlock() {
	m.real.Unlock()
	if schedOn {
		mUnlock(&m.model)
	}
}

func (m *RWMutex) RLock() {
	if schedOn {
		mRLock(&m.model)
	}
	m.real.RLock()
}

func (m *RWMutex) RUnlock() {
	m.real.RUnlock()
	if schedOn {
		mRUnlock(&m.model)
	}
}

func (m *RWMutex) TryLock() bool {
	if schedOn {
		if !mTry(&m.model, true) {
			return false
		}
		if !m.real.TryLock() {
			fatalf("model granted a lock the real one refused")
		}
		return true
	}
	return m.real.TryLock()
}

func (m *RWMutex) TryRLock() bool {
	if schedOn {
		if !mTry(&m.model, false) {
			return false
		}
		if !m.real.TryRLock() {
			fatalf("model granted a read lock the real one refused")
		}
		return true
	}
	return m.real.TryRLock()
}

// RLocker mirrors (*sync.RWMutex).RLocker.
func (m *RWMutex) RLocker() sync.Locker { return (*rlocker)(m) }

type rlocker RWMutex

func (r *rlocker) Lock()   { (*RWMutex)(r).RLock() }
func (r *rlocker) Unlock() { (*RWMutex)(r).RUnlock() }

//go:norace
func mLock(l *lockModel) {
	waitFor(wWLock, l, nil, siteLock)
	l.writer = int32(curG) + 1
}

//go:norace
func mRLock(l *lockModel) {
	waitFor(wRLock, l, nil, siteRLock)
	l.readers++
}

//go:norace
func mTry(l *lockModel, excl bool) bool {
	Yield(siteLock)
	if excl {
		if l.writer != 0 || l.readers != 0 {
			return false
		}
		l.writer = int32(curG) + 1
		return true
	}
	if l.writer != 0 {
		return false
	}
	l.readers++
	return true
}

//go:norace
func mUnlock(l *lockModel) {
	l.writer = 0
	Yield(siteUnlock)
}

//go:norace
func mRUnlock(l *lockModel) {
	if l.readers > 0 {
		l.readers--
	}
	Yield(siteRUnlock)
}

// ---------------------------------------------------------------- Once

type Once struct {
	real  sync.Once
	model onceModel
}

func (o *Once) Do(f func()) {
	if !schedOn {
		o.real.Do(f)
		return
	}
	first := onceEnter(&o.model)
	if first {
		defer onceLeave(&o.model)
	}
	o.real.Do(f)
}

//go:norace
func onceEnter(m *onceModel) bool {
	waitFor(wOnce, nil, m, siteOnce)
	if m.state == 0 {
		m.state = 1
		Yield(siteOnce) // let others arrive while the initialiser runs
		return true
	}
	return false
}

//go:norace
func onceLeave(m *onceModel) {
	m.state = 2
	Yield(siteOnce)
}

// ---------------------------------------------------------------- Pool

// Pool policies (per run).
const (
	PoolMostRecent = iota // the usual behaviour of sync.Pool on one P
	PoolOldest
	PoolRandom
	PoolAlwaysNew
	PoolCrossG // prefer an object put by another goroutine than the caller
)

const poolCap = 64

// poolItem remembers which "edge" it was published through: Put locks/unlocks
// edge e after storing, Get locks/unlocks the same edge before handing the
// object out, which gives the race detector the edge putter -> getter of this
// item. Edges are a fixed package-level array (a mutex allocated by the putter
// would itself be published without synchronisation); items share them round
// robin, as the real pool shares its 128 race addresses between objects.
type poolItem struct {
	x    interface{}
	by   int32
	edge int32
}

const nPoolEdges = 256

var (
	poolEdges [nPoolEdges]sync.Mutex
	poolEdgeN int32
)

type Pool struct {
	New func() interface{}

	real  sync.Pool
	items [poolCap]*poolItem
	n     int
	reg   bool
}

// Every pool used under simulation is registered so that Reset can empty it:
// the content of a pool is process history, and a run must not depend on
// history that is not part of its case (history is re-created explicitly by
// executing other projects first).
const maxPools = 256

var (
	allPools [maxPools]*Pool
	nPools   int
)

//go:norace
func registerPool(p *Pool) {
	if p.reg {
		return
	}
	p.reg = true
	if nPools < maxPools {
		allPools[nPools] = p
		nPools++
	}
}

//go:norace
func clearPools() {
	for i := 0; i < nPools; i++ {
		p := allPools[i]
		for k := 0; k < p.n; k++ {
			p.items[k] = nil
		}
		p.n = 0
	}
}

var (
	poolPolicy   int
	poolDropProb int // permille
	nPoolGet     uint64
	nPoolReuse   uint64
	nPoolCross   uint64 // object handed to a different goroutine than the one that put it
	nPoolDrop    uint64
	nPoolNotLast uint64 // reuse of an object that was not the most recently put
)

//go:norace
func resetPoolStats() { clearPools() }

// SetPoolPolicy sets the pool policy and Put-drop probability of the run.
//
//go:norace
func SetPoolPolicy(p int, dropPermille int) { poolPolicy, poolDropProb = p, dropPermille }

// PoolStats returns cumulative pool counters.
//
//go:norace
func PoolStats() (gets, reuses, cross, drops, notLast uint64) {
	return nPoolGet, nPoolReuse, nPoolCross, nPoolDrop, nPoolNotLast
}

func (p *Pool) Get() interface{} {
	if !Active {
		x := p.real.Get()
		if x == nil && p.New != nil {
			x = p.New()
		}
		return x
	}
	x, e := poolChooseGet(p)
	if e < 0 {
		if p.New == nil {
			return nil
		}
		return p.New()
	}
	poolEdges[e].Lock()
	poolEdges[e].Unlock() //nolint:staticcheck // empty critical section: only the happens-before edge is wanted
	return x
}

func (p *Pool) Put(x interface{}) {
	if !Active {
		p.real.Put(x)
		return
	}
	if x == nil {
		return
	}
	e := poolAdmit(p)
	if e < 0 {
		return // dropped, as the real pool may
	}
	poolEdges[e].Lock()
	poolEdges[e].Unlock() //nolint:staticcheck
	poolStore(p, x, e)
	if schedOn {
		Yield(sitePoolPut)
	}
}

//go:norace
func poolChooseGet(p *Pool) (interface{}, int32) {
	registerPool(p)
	if schedOn {
		Yield(sitePoolGet)
	}
	nPoolGet++
	n := p.n
	if n == 0 {
		return nil, -1
	}
	// choices: 0 = most recent, 1..n-1 = older ones (n-1 = oldest), n = New
	prop := 0
	switch poolPolicy {
	case PoolMostRecent:
		prop = 0
	case PoolOldest:
		prop = n - 1
	case PoolRandom:
		prop = RandN(n + 1)
	case PoolAlwaysNew:
		prop = n
	case PoolCrossG:
		prop = 0
		for k := 0; k < n; k++ {
			if int(p.items[n-1-k].by) != curG {
				prop = k
				break
			}
		}
	}
	c := Decide(KPoolGet, 0, n+1, prop)
	if c == n {
		return nil, -1
	}
	i := n - 1 - c
	it := p.items[i]
	nPoolReuse++
	if schedOn && int(it.by) != curG {
		nPoolCross++
	}
	if i != n-1 {
		nPoolNotLast++
	}
	for k := i; k < n-1; k++ {
		p.items[k] = p.items[k+1]
	}
	p.n--
	p.items[p.n] = nil
	return it.x, it.edge
}

//go:norace
func poolAdmit(p *Pool) int32 {
	registerPool(p)
	drop := 0
	if poolDropProb > 0 && RandN(1000) < poolDropProb {
		drop = 1
	}
	full := p.n >= poolCap
	if poolDropProb > 0 {
		if Decide(KPoolDrop, 0, 2, drop) == 1 {
			nPoolDrop++
			return -1
		}
	}
	if full {
		return -1
	}
	poolEdgeN = (poolEdgeN + 1) % nPoolEdges
	return poolEdgeN
}

//go:norace
func poolStore(p *Pool, x interface{}, e int32) {
	if p.n >= poolCap {
		return
	}
	p.items[p.n] = &poolItem{x: x, by: int32(curG), edge: e}
	p.n++
}

package simrt

import (
	"math/rand"
	"sync"
	"time"
)

// Clock and RNG seams. The library reads neither today; the seams exist so that
// a change which adds such a dependency is visible to the determinism check:
// two runs of the same project get different clocks and RNG streams on purpose.

var (
	clockMu   sync.Mutex
	clockBase = time.Unix(1_700_000_000, 0)
	clockOff  time.Duration
	simRand   = rand.New(rand.NewSource(1))
	nClock    uint64
	nRand     uint64
)

// SetClock sets the simulated start time and RNG stream of the run.
func SetClock(startUnix int64, rngSeed int64) {
	clockMu.Lock()
	defer clockMu.Unlock()
	clockBase = time.Unix(startUnix, 0)
	clockOff = 0
	simRand = rand.New(rand.NewSource(rngSeed))
}

// ClockStats returns how often the clock and the RNG were read (cumulative).
func ClockStats() (clockReads, randReads uint64) {
	clockMu.Lock()
	defer clockMu.Unlock()
	return nClock, nRand
}

func TimeNow() time.Time {
	if !Active {
		return time.Now()
	}
	clockMu.Lock()
	defer clockMu.Unlock()
	nClock++
	clockOff += 1537 * time.Microsecond
	return clockBase.Add(clockOff)
}

func TimeSince(t time.Time) time.Duration { return TimeNow().Sub(t) }
func TimeUntil(t time.Time) time.Duration { return t.Sub(TimeNow()) }

func TimeSleep(d time.Duration) {
	if !Active {
		time.Sleep(d)
		return
	}
	clockMu.Lock()
	if d > 0 {
		clockOff += d
	}
	clockMu.Unlock()
	if schedOn {
		Yield(-10)
	}
}

func withRand[T any](real func() T, sim func(*rand.Rand) T) T {
	if !Active {
		return real()
	}
	clockMu.Lock()
	defer clockMu.Unlock()
	nRand++
	return sim(simRand)
}

func RandInt() int       { return withRand(rand.Int, (*rand.Rand).Int) }
func RandInt31() int32   { return withRand(rand.Int31, (*rand.Rand).Int31) }
func RandInt63() int64   { return withRand(rand.Int63, (*rand.Rand).Int63) }
func RandUint32() uint32 { return withRand(rand.Uint32, (*rand.Rand).Uint32) }
func RandUint64() uint64 { return withRand(rand.Uint64, (*rand.Rand).Uint64) }
func RandFloat64() float64 {
	return withRand(rand.Float64, (*rand.Rand).Float64)
}
func RandFloat32() float32 {
	return withRand(rand.Float32, (*rand.Rand).Float32)
}
func RandIntn(n int) int {
	return withRand(func() int { return rand.Intn(n) }, func(r *rand.Rand) int { return r.Intn(n) })
}
func RandInt31n(n int32) int32 {
	return withRand(func() int32 { return rand.Int31n(n) }, func(r *rand.Rand) int32 { return r.Int31n(n) })
}
func RandInt63n(n int64) int64 {
	return withRand(func() int64 { return rand.Int63n(n) }, func(r *rand.Rand) int64 { return r.Int63n(n) })
}
func RandPerm(n int) []int {
	return withRand(func() []int { return rand.Perm(n) }, func(r *rand.Rand) []int { return r.Perm(n) })
}
func RandShuffle(n int, swap func(i, j int)) {
	withRand(func() int { rand.Shuffle(n, swap); return 0 }, func(r *rand.Rand) int { r.Shuffle(n, swap); return 0 })
}
func RandSeed(seed int64) {
	if !Active {
		rand.Seed(seed) //nolint:staticcheck
		return
	}
	clockMu.Lock()
	nRand++
	simRand = rand.New(rand.NewSource(seed))
	clockMu.Unlock()
}
func RandRead(p []byte) (int, error) {
	if !Active {
		return rand.Read(p) //nolint:staticcheck
	}
	clockMu.Lock()
	defer clockMu.Unlock()
	nRand++
	return simRand.Read(p)
}

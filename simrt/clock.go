package simrt

import (
	"errors"
	"fmt"
	"math/rand"
	"reflect"
	"strings"
	"sync"
	"time"
)

// Clock and RNG seams. The library reads neither today; the seams exist so that
// a change which adds such a dependency is visible to the determinism check:
// two runs of the same project get different clocks and RNG streams on purpose.

var (
	clockMu   sync.Mutex
	clockBase = time.Unix(1_700_000_000, 0)
	clockOff  time.Duration
	clockStep = 1537 * time.Microsecond // how far one read of the clock advances it (per run)
	simRand   = rand.New(rand.NewSource(1))
	nClock    uint64
	nRand     uint64
)

// SetClock sets the simulated start time and RNG stream of the run.
func SetClock(startUnix int64, rngSeed int64) {
	clockMu.Lock()
	defer clockMu.Unlock()
	clockBase = time.Unix(startUnix, 0)
	clockOff = 0
	// a fast or a slow machine: between 1 microsecond and 40 milliseconds per clock read
	clockStep = []time.Duration{time.Microsecond, 137 * time.Microsecond, 1537 * time.Microsecond, 40 * time.Millisecond}[uint64(rngSeed^startUnix)%4]
	simRand = rand.New(rand.NewSource(rngSeed))
	SetAddressBase(uint64(startUnix) ^ uint64(rngSeed))
}

// ClockStats returns how often the clock and the RNG were read (cumulative).
func ClockStats() (clockReads, randReads uint64) {
	clockMu.Lock()
	defer clockMu.Unlock()
	return nClock, nRand
}

func TimeNow() time.Time {
	if !Active {
		return time.Now()
	}
	clockMu.Lock()
	defer clockMu.Unlock()
	nClock++
	clockOff += clockStep
	return clockBase.Add(clockOff)
}

func TimeSince(t time.Time) time.Duration { return TimeNow().Sub(t) }
func TimeUntil(t time.Time) time.Duration { return t.Sub(TimeNow()) }

func TimeSleep(d time.Duration) {
	if !Active {
		time.Sleep(d)
		return
	}
	clockMu.Lock()
	if d > 0 {
		clockOff += d
	}
	clockMu.Unlock()
	if schedOn {
		Yield(-10)
	}
}

func withRand[T any](real func() T, sim func(*rand.Rand) T) T {
	if !Active {
		return real()
	}
	clockMu.Lock()
	defer clockMu.Unlock()
	nRand++
	return sim(simRand)
}

func RandInt() int       { return withRand(rand.Int, (*rand.Rand).Int) }
func RandInt31() int32   { return withRand(rand.Int31, (*rand.Rand).Int31) }
func RandInt63() int64   { return withRand(rand.Int63, (*rand.Rand).Int63) }
func RandUint32() uint32 { return withRand(rand.Uint32, (*rand.Rand).Uint32) }
func RandUint64() uint64 { return withRand(rand.Uint64, (*rand.Rand).Uint64) }
func RandFloat64() float64 {
	return withRand(rand.Float64, (*rand.Rand).Float64)
}
func RandFloat32() float32 {
	return withRand(rand.Float32, (*rand.Rand).Float32)
}
func RandIntn(n int) int {
	return withRand(func() int { return rand.Intn(n) }, func(r *rand.Rand) int { return r.Intn(n) })
}
func RandInt31n(n int32) int32 {
	return withRand(func() int32 { return rand.Int31n(n) }, func(r *rand.Rand) int32 { return r.Int31n(n) })
}
func RandInt63n(n int64) int64 {
	return withRand(func() int64 { return rand.Int63n(n) }, func(r *rand.Rand) int64 { return r.Int63n(n) })
}
func RandPerm(n int) []int {
	return withRand(func() []int { return rand.Perm(n) }, func(r *rand.Rand) []int { return r.Perm(n) })
}
func RandShuffle(n int, swap func(i, j int)) {
	withRand(func() int { rand.Shuffle(n, swap); return 0 }, func(r *rand.Rand) int { r.Shuffle(n, swap); return 0 })
}
func RandSeed(seed int64) {
	if !Active {
		rand.Seed(seed) //nolint:staticcheck
		return
	}
	clockMu.Lock()
	nRand++
	simRand = rand.New(rand.NewSource(seed))
	clockMu.Unlock()
}
func RandRead(p []byte) (int, error) {
	if !Active {
		return rand.Read(p) //nolint:staticcheck
	}
	clockMu.Lock()
	defer clockMu.Unlock()
	nRand++
	return simRand.Read(p)
}

// ---------------------------------------------------------------- addresses in text

// Sprintf is what fmt.Sprintf / fmt.Errorf calls with a %p verb are rewritten to. Memory
// addresses are a source of nondeterminism like any other: code that turns a pointer into text
// (the schema library names unnamed types "#%p") gets a stand-in address that is the same for the
// same pointer within one run, is handed out in the order of first use (deterministic), and
// depends on the environment of the run (so that text which leaks into a result still differs
// between two environments, as real addresses would).
func Sprintf(format string, a ...interface{}) string {
	out := fmt.Sprintf(format, a...)
	if !Active {
		return out
	}
	for _, x := range a {
		v := reflect.ValueOf(x)
		switch v.Kind() {
		case reflect.Ptr, reflect.UnsafePointer, reflect.Map, reflect.Chan, reflect.Func, reflect.Slice:
			if v.Pointer() == 0 {
				continue
			}
			real := fmt.Sprintf("%p", x)
			if strings.Contains(out, real) {
				out = strings.ReplaceAll(out, real, fakeAddr(v.Pointer()))
			}
		}
	}
	return out
}

// Errorf is fmt.Errorf with the same treatment of %p (no %w support is needed for that).
func Errorf(format string, a ...interface{}) error {
	if !Active {
		return fmt.Errorf(format, a...)
	}
	return errors.New(Sprintf(strings.ReplaceAll(format, "%w", "%v"), a...))
}

const maxFakeAddrs = 1 << 16

var (
	fakeKeys [maxFakeAddrs]uintptr
	fakeN    int
	fakeBase uint64 = 0xc000100000
)

// SetAddressBase sets the base of the stand-in addresses of the run.
//
//go:norace
func SetAddressBase(b uint64) { fakeBase = 0xc000000000 + (b%0xffff)*0x10000; fakeN = 0 }

//go:norace
func fakeOrdinal(p uintptr) int {
	for i := 0; i < fakeN; i++ {
		if fakeKeys[i] == p {
			return i
		}
	}
	if fakeN < maxFakeAddrs {
		fakeKeys[fakeN] = p
		fakeN++
		return fakeN - 1
	}
	return maxFakeAddrs
}

func fakeAddr(p uintptr) string {
	return fmt.Sprintf("0x%x", fakeBase+uint64(fakeOrdinal(p))*0x40)
}

package simrt

import (
	"errors"
	"io"
	iofs "io/fs"
	"os"
	"path/filepath"
	"sort"
	"strings"
	"sync"
	"syscall"
	"time"
)

// Fault kinds of the simulated disk.
const (
	FNone = iota
	FEnoent
	FEisdir // Stat: reports a directory; ReadFile: EISDIR
	FEacces
	FEio
	FEloop
	FEnametoolong
	FEnotdir
	FTorn     // ReadFile returns a prefix (P1 = length)
	FZeroTail // prefix (P1) followed by NUL bytes up to the original length
	FFlip     // byte at P1 replaced by byte P2
	FSwap     // content of another file of the tree (P1 = index in sorted file list)
	FEmpty    // zero-length content
	FDup      // content twice (a write appended while reading)
	fKinds
)

var FaultNames = [...]string{"none", "enoent", "eisdir", "eacces", "eio", "eloop", "enametoolong", "enotdir",
	"torn", "zero-tail", "flip", "swap", "empty", "dup"}

// NumFaultKinds is the number of fault kinds including "none".
const NumFaultKinds = fKinds

// PlannedFault fires at the Call-th file-system call of the run (0-based).
type PlannedFault struct {
	Call int `json:"call"`
	Kind int `json:"kind"`
	P1   int `json:"p1,omitempty"`
	P2   int `json:"p2,omitempty"`
}

// FSEvent is one observed file-system call.
type FSEvent struct {
	Op    string `json:"op"`
	Path  string `json:"path"`
	Err   string `json:"err,omitempty"`
	N     int    `json:"n,omitempty"`
	Fault string `json:"fault,omitempty"`
}

// Disk is the simulated file system of one run.
type Disk struct {
	Files map[string][]byte // absolute cleaned path -> content
	Dirs  map[string]bool   // absolute cleaned path -> is directory (ancestors of files are added automatically)
	Cwd   string            // simulated working directory (absolute)

	// Universal: every path exists. Ancestors of UniversalRoot (and it) are
	// directories; anything else not in Files/Dirs is a regular file holding
	// UniversalContent.
	Universal        bool
	UniversalRoot    string
	UniversalContent []byte
	// Special: paths that behave like a FIFO or a /proc file - every stat (of the path or of an open
	// descriptor) reports the size given here (0 for a FIFO), whatever the content is; reads deliver
	// the whole content. os.ReadFile copes with that; code that trusts the reported size does not.
	Special   map[string]int64
	fileReads int
	// Links: symbolic links (absolute cleaned link path -> absolute cleaned target path). Every
	// call but lstat/readlink follows them.
	Links map[string]string
	// ShadowDir: every path below this directory exists as a regular file holding
	// UniversalContent (a working directory in which any relative name resolves).
	ShadowDir string

	Plan []PlannedFault

	// Slack is the spare capacity (bytes) of the slices that reads return;
	// negative: the capacity os.ReadFile gives, max(512, size+1) (the default of NewDisk).
	Slack int

	Log      []FSEvent
	Calls    int
	MaxCalls int // > 0: cap; exceeding it panics with BudgetExceeded
	Fired    [fKinds]int
	// Probes
	ToctouSplit   int // an errno fault hit a ReadFile whose Stat had succeeded
	RereadChanged int // same path read twice with different content
	lastStatOK    map[string]bool
	lastRead      map[string]string

	// mu serialises calls from several simulated goroutines. It adds a
	// happens-before edge between two goroutines that both touch the disk
	// (the real os calls do not); accepted: file access is rare and the state
	// reached through it is per parse.
	mu sync.Mutex
}

// FS is the disk of the current run (nil or !Active: real file system).
var FS *Disk

// NewDisk makes an empty disk with the given working directory.
func NewDisk(cwd string) *Disk {
	return &Disk{Files: map[string][]byte{}, Dirs: map[string]bool{"/": true}, Cwd: filepath.Clean(cwd), Slack: -1,
		lastStatOK: map[string]bool{}, lastRead: map[string]string{}}
}

// AddFile stores a file and creates its ancestor directories.
func (d *Disk) AddFile(path string, content []byte) {
	p := d.abs(path)
	d.Files[p] = content
	d.mkAncestors(p)
}

// AddDir stores a directory.
func (d *Disk) AddDir(path string) {
	p := d.abs(path)
	d.Dirs[p] = true
	d.mkAncestors(p)
}

func (d *Disk) mkAncestors(p string) {
	for {
		p = filepath.Dir(p)
		d.Dirs[p] = true
		if p == "/" || p == "." {
			return
		}
	}
}

func (d *Disk) abs(path string) string {
	if !filepath.IsAbs(path) {
		path = filepath.Join(d.Cwd, path)
	}
	return filepath.Clean(path)
}

// SortedFiles returns the paths of all stored files in ascending order.
func (d *Disk) SortedFiles() []string {
	out := make([]string, 0, len(d.Files))
	for k := range d.Files {
		out = append(out, k)
	}
	sort.Strings(out)
	return out
}

type nodeKind int

const (
	nAbsent nodeKind = iota
	nFile
	nDir
	nNotDir // a path component is a regular file
)

func (d *Disk) lookup(p string) (nodeKind, []byte) {
	for hops := 0; hops < 8; hops++ {
		t, ok := d.Links[p]
		if !ok {
			break
		}
		p = t
	}
	if c, ok := d.Files[p]; ok {
		return nFile, c
	}
	if d.Dirs[p] {
		return nDir, nil
	}
	// a proper prefix that is a regular file -> ENOTDIR
	for q := filepath.Dir(p); q != "/" && q != "."; q = filepath.Dir(q) {
		if _, ok := d.Files[q]; ok {
			return nNotDir, nil
		}
	}
	if d.ShadowDir != "" {
		if p == d.ShadowDir || strings.HasPrefix(d.ShadowDir, strings.TrimSuffix(p, "/")+"/") {
			return nDir, nil
		}
		if strings.HasPrefix(p, d.ShadowDir+"/") {
			return nFile, d.UniversalContent
		}
	}
	if d.Universal {
		root := filepath.Clean(d.UniversalRoot)
		if p == root || strings.HasPrefix(root, strings.TrimSuffix(p, "/")+"/") || p == "/" {
			return nDir, nil
		}
		return nFile, d.UniversalContent
	}
	return nAbsent, nil
}

func (d *Disk) nextFault() (PlannedFault, bool) {
	call := d.Calls
	d.Calls++
	if d.MaxCalls > 0 && d.Calls > d.MaxCalls {
		panic(BudgetExceeded{What: "fs-calls"})
	}
	Tick()
	for _, f := range d.Plan {
		if f.Call == call && f.Kind != FNone {
			return f, true
		}
	}
	return PlannedFault{}, false
}

func errnoOf(kind int) syscall.Errno {
	switch kind {
	case FEnoent:
		return syscall.ENOENT
	case FEisdir:
		return syscall.EISDIR
	case FEacces:
		return syscall.EACCES
	case FEio:
		return syscall.EIO
	case FEloop:
		return syscall.ELOOP
	case FEnametoolong:
		return syscall.ENAMETOOLONG
	case FEnotdir:
		return syscall.ENOTDIR
	}
	return 0
}

func (d *Disk) log(op, path string, err error, n int, fault int) {
	e := FSEvent{Op: op, Path: path, N: n}
	if err != nil {
		e.Err = err.Error()
	}
	if fault != FNone {
		e.Fault = FaultNames[fault]
		d.Fired[fault]++
	}
	d.Log = append(d.Log, e)
	var h uint64
	for i := 0; i < len(path); i++ {
		h = h*131 + uint64(path[i])
	}
	Event(100+uint64(len(op)), h, uint64(n)<<8|uint64(fault))
}

type fileInfo struct {
	name string
	size int64
	dir  bool
	link bool
}

func (f fileInfo) Name() string { return f.name }
func (f fileInfo) Size() int64  { return f.size }
func (f fileInfo) Mode() iofs.FileMode {
	if f.link {
		return iofs.ModeSymlink | 0o777
	}
	if f.dir {
		return iofs.ModeDir | 0o755
	}
	return 0o644
}
func (f fileInfo) ModTime() time.Time { return time.Unix(1_600_000_000, 0) }
func (f fileInfo) IsDir() bool        { return f.dir }
func (f fileInfo) Sys() interface{}   { return nil }

func (d *Disk) stat(op, name string) (os.FileInfo, error) {
	d.mu.Lock()
	defer d.mu.Unlock()
	p := d.abs(name)
	f, has := d.nextFault()
	if has {
		if en := errnoOf(f.Kind); en != 0 && f.Kind != FEisdir {
			err := &os.PathError{Op: op, Path: name, Err: en}
			d.log(op, name, err, 0, f.Kind)
			delete(d.lastStatOK, p)
			return nil, err
		}
		if f.Kind == FEisdir { // the target was replaced by a directory
			d.log(op, name, nil, 0, f.Kind)
			return fileInfo{name: filepath.Base(p), dir: true}, nil
		}
		// content faults do not apply to a stat
	}
	if t, ok := d.Links[p]; ok && op == "lstat" {
		d.log(op, name, nil, len(t), FNone)
		return fileInfo{name: filepath.Base(p), size: int64(len(t)), link: true}, nil
	}
	k, c := d.lookup(p)
	switch k {
	case nFile:
		d.log(op, name, nil, len(c), FNone)
		d.lastStatOK[p] = true
		if sz, ok := d.Special[p]; ok {
			return fileInfo{name: filepath.Base(p), size: sz}, nil
		}
		return fileInfo{name: filepath.Base(p), size: int64(len(c))}, nil
	case nDir:
		d.log(op, name, nil, 0, FNone)
		return fileInfo{name: filepath.Base(p), dir: true}, nil
	case nNotDir:
		err := &os.PathError{Op: op, Path: name, Err: syscall.ENOTDIR}
		d.log(op, name, err, 0, FNone)
		return nil, err
	}
	err := &os.PathError{Op: op, Path: name, Err: syscall.ENOENT}
	d.log(op, name, err, 0, FNone)
	return nil, err
}

// content returns what a read of the path yields, applying a planned fault.
func (d *Disk) content(op, errOp, name string) ([]byte, error) {
	d.mu.Lock()
	defer d.mu.Unlock()
	p := d.abs(name)
	f, has := d.nextFault()
	fault := FNone
	if has {
		if en := errnoOf(f.Kind); en != 0 {
			eop := errOp
			if en == syscall.EISDIR || en == syscall.EIO {
				eop = "read"
			}
			err := &os.PathError{Op: eop, Path: name, Err: en}
			d.log(op, name, err, 0, f.Kind)
			if d.lastStatOK[p] {
				d.ToctouSplit++
			}
			return nil, err
		}
	}
	k, c := d.lookup(p)
	switch k {
	case nDir:
		err := &os.PathError{Op: "read", Path: name, Err: syscall.EISDIR}
		d.log(op, name, err, 0, FNone)
		return nil, err
	case nNotDir:
		err := &os.PathError{Op: errOp, Path: name, Err: syscall.ENOTDIR}
		d.log(op, name, err, 0, FNone)
		return nil, err
	case nAbsent:
		err := &os.PathError{Op: errOp, Path: name, Err: syscall.ENOENT}
		d.log(op, name, err, 0, FNone)
		return nil, err
	}
	out := append([]byte(nil), c...)
	if has {
		out, fault = d.applyContentFault(out, c, p, f)
	}
	if prev, ok := d.lastRead[p]; ok && prev != string(out) {
		d.RereadChanged++
	}
	d.lastRead[p] = string(out)
	d.log(op, name, nil, len(out), fault)
	// The capacity of what a read returns is a knob: exactly the length (an over-read by
	// reslicing then panics instead of silently seeing spare bytes) or with Slack spare bytes.
	capa := len(out) + d.Slack
	if d.Slack < 0 {
		// what os.ReadFile of this toolchain allocates: max(512, size+1)
		capa = len(out) + 1
		if capa < 512 {
			capa = 512
		}
	}
	tight := make([]byte, len(out), capa)
	copy(tight, out)
	return tight, nil
}

// ApplyContentFault applies a content fault (torn, zero-tail, flip, empty, dup) to
// bytes that do not come from the disk (the root content handed to NewJApiFromFile).
func ApplyContentFault(c []byte, f PlannedFault) []byte {
	d := NewDisk("/")
	out, _ := d.applyContentFault(append([]byte(nil), c...), c, "", f)
	return out
}

func (d *Disk) applyContentFault(out, c []byte, p string, f PlannedFault) ([]byte, int) {
	fault := FNone
	switch f.Kind {
	case FTorn:
		if n := len(out); n > 0 {
			out = out[:clamp(f.P1, 0, n-1)]
			fault = FTorn
		}
	case FZeroTail:
		if n := len(out); n > 0 {
			for i := clamp(f.P1, 0, n-1); i < n; i++ {
				out[i] = 0
			}
			fault = FZeroTail
		}
	case FFlip:
		if n := len(out); n > 0 {
			i := clamp(f.P1, 0, n-1)
			b := byte(f.P2)
			if b == out[i] {
				b ^= 0x20
			}
			out[i] = b
			fault = FFlip
		}
	case FSwap:
		ff := d.SortedFiles()
		if len(ff) > 1 {
			q := ff[clamp(f.P1, 0, len(ff)-1)]
			if q == p {
				q = ff[(clamp(f.P1, 0, len(ff)-1)+1)%len(ff)]
			}
			out = append([]byte(nil), d.Files[q]...)
			fault = FSwap
		}
	case FEmpty:
		out = out[:0]
		fault = FEmpty
	case FDup:
		out = append(out, c...)
		fault = FDup
	}
	return out, fault
}

func clamp(v, lo, hi int) int {
	if v < lo {
		return lo
	}
	if v > hi {
		return hi
	}
	return v
}

func sim() *Disk {
	if Active && FS != nil {
		return FS
	}
	return nil
}

// ---- seams (same signatures as the functions they replace) ----

func FSStat(name string) (os.FileInfo, error) {
	if d := sim(); d != nil {
		return d.stat("stat", name)
	}
	return os.Stat(name)
}

func FSLstat(name string) (os.FileInfo, error) {
	if d := sim(); d != nil {
		return d.stat("lstat", name)
	}
	return os.Lstat(name)
}

func FSReadFile(name string) ([]byte, error) {
	if d := sim(); d != nil {
		return d.content("readfile", "open", name)
	}
	return os.ReadFile(name)
}

// FSOpen materialises the simulated content in an unlinked temporary file and hands out an
// *os.File that carries the simulated name (so that error texts of later reads name the path
// the code under test opened, as on a real disk).
func FSOpen(name string) (*os.File, error) {
	d := sim()
	if d == nil {
		return os.Open(name)
	}
	renamed := func(f *os.File) (*os.File, error) {
		fd, err := syscall.Dup(int(f.Fd()))
		f.Close()
		if err != nil {
			fatalf("FSOpen: dup: %v", err)
		}
		return os.NewFile(uintptr(fd), name), nil
	}
	// Opening a directory succeeds on a real disk; reads then fail with EISDIR.
	p := d.abs(name)
	d.mu.Lock()
	k, _ := d.lookup(p)
	d.mu.Unlock()
	if k == nDir {
		d.mu.Lock()
		_, faulted := d.nextFault()
		d.log("open", name, nil, 0, FNone)
		d.mu.Unlock()
		_ = faulted
		f, err := os.Open(os.TempDir())
		if err != nil {
			fatalf("FSOpen: %v", err)
		}
		return renamed(f)
	}
	c, err := d.content("open", "open", name)
	if err != nil {
		return nil, err
	}
	d.mu.Lock()
	_, special := d.Special[p]
	d.mu.Unlock()
	if special {
		// a pipe: fstat reports size 0, reads deliver the content and then EOF
		pr, pw, err := os.Pipe()
		if err != nil {
			fatalf("FSOpen: pipe: %v", err)
		}
		go func(b []byte) {
			_, _ = pw.Write(b)
			_ = pw.Close()
		}(append([]byte(nil), c...))
		return renamed(pr)
	}
	f, err := os.CreateTemp("", "simrt-open-*")
	if err != nil {
		fatalf("FSOpen: %v", err)
	}
	_ = os.Remove(f.Name())
	if _, err := f.Write(c); err != nil {
		fatalf("FSOpen: %v", err)
	}
	if _, err := f.Seek(0, 0); err != nil {
		fatalf("FSOpen: %v", err)
	}
	return renamed(f)
}

func FSOpenFile(name string, flag int, perm os.FileMode) (*os.File, error) {
	if d := sim(); d != nil {
		if flag&(os.O_WRONLY|os.O_RDWR|os.O_CREATE|os.O_TRUNC|os.O_APPEND) != 0 {
			d.nextFault()
			err := &os.PathError{Op: "open", Path: name, Err: syscall.EROFS}
			d.log("openfile-write", name, err, 0, FNone)
			return nil, err
		}
		return FSOpen(name)
	}
	return os.OpenFile(name, flag, perm)
}

type dirEntry struct{ fileInfo }

func (e dirEntry) Type() iofs.FileMode          { return e.Mode().Type() }
func (e dirEntry) Info() (iofs.FileInfo, error) { return e.fileInfo, nil }

func FSReadDir(name string) ([]os.DirEntry, error) {
	d := sim()
	if d == nil {
		return os.ReadDir(name)
	}
	p := d.abs(name)
	if f, has := d.nextFault(); has {
		if en := errnoOf(f.Kind); en != 0 {
			err := &os.PathError{Op: "open", Path: name, Err: en}
			d.log("readdir", name, err, 0, f.Kind)
			return nil, err
		}
	}
	k, _ := d.lookup(p)
	if k != nDir {
		en := syscall.ENOENT
		if k == nFile {
			en = syscall.ENOTDIR
		}
		err := &os.PathError{Op: "open", Path: name, Err: en}
		d.log("readdir", name, err, 0, FNone)
		return nil, err
	}
	var out []os.DirEntry
	seen := map[string]bool{}
	for q, c := range d.Files {
		if filepath.Dir(q) == p {
			out = append(out, dirEntry{fileInfo{name: filepath.Base(q), size: int64(len(c))}})
			seen[q] = true
		}
	}
	for q := range d.Dirs {
		if q != p && filepath.Dir(q) == p && !seen[q] {
			out = append(out, dirEntry{fileInfo{name: filepath.Base(q), dir: true}})
		}
	}
	sort.Slice(out, func(i, j int) bool { return out[i].Name() < out[j].Name() })
	d.log("readdir", name, nil, len(out), FNone)
	return out, nil
}

func FSReadlink(name string) (string, error) {
	if d := sim(); d != nil {
		d.nextFault()
		if t, ok := d.Links[d.abs(name)]; ok {
			d.log("readlink", name, nil, len(t), FNone)
			return t, nil
		}
		err := &os.PathError{Op: "readlink", Path: name, Err: syscall.EINVAL}
		if k, _ := d.lookup(d.abs(name)); k == nAbsent {
			err.Err = syscall.ENOENT
		}
		d.log("readlink", name, err, 0, FNone)
		return "", err
	}
	return os.Readlink(name)
}

func FSGetwd() (string, error) {
	if d := sim(); d != nil {
		d.log("getwd", d.Cwd, nil, 0, FNone)
		return d.Cwd, nil
	}
	return os.Getwd()
}

func FSAbs(path string) (string, error) {
	if d := sim(); d != nil {
		return d.abs(path), nil
	}
	return filepath.Abs(path)
}

func FSEvalSymlinks(path string) (string, error) {
	if d := sim(); d != nil {
		if _, err := d.stat("stat", path); err != nil {
			return "", err
		}
		p := d.abs(path)
		for hops := 0; hops < 8; hops++ {
			t, ok := d.Links[p]
			if !ok {
				break
			}
			p = t
		}
		if !filepath.IsAbs(path) && d.Links[d.abs(path)] == "" {
			return filepath.Clean(path), nil
		}
		return p, nil
	}
	return filepath.EvalSymlinks(path)
}

// IsNotExist helper for workers.
func IsNotExist(err error) bool { return errors.Is(err, os.ErrNotExist) }

// LastRead returns, per absolute path, the bytes that the most recent read of the path delivered
// (after content faults).
func (d *Disk) LastRead() map[string]string {
	d.mu.Lock()
	defer d.mu.Unlock()
	out := make(map[string]string, len(d.lastRead))
	for k, v := range d.lastRead {
		out[k] = v
	}
	return out
}

// ---------------------------------------------------------------- directory listings through *os.File

// listing of an opened directory: the order is the file system's business, so the simulator
// decides it (one decision per opened handle; choice 0 = ascending by name, as os.ReadDir sorts).
type dirListing struct {
	entries []dirEntry
	next    int
}

var dirListings = struct {
	mu sync.Mutex
	m  map[*os.File]*dirListing
}{m: map[*os.File]*dirListing{}}

func (d *Disk) listingOf(f *os.File) (*dirListing, error) {
	dirListings.mu.Lock()
	defer dirListings.mu.Unlock()
	if l, ok := dirListings.m[f]; ok {
		return l, nil
	}
	name := f.Name()
	ee, err := FSReadDir(name) // consumes one call, applies planned errno faults, logs
	if err != nil {
		return nil, err
	}
	l := &dirListing{}
	for _, e := range ee {
		l.entries = append(l.entries, e.(dirEntry))
	}
	if n := len(l.entries); n >= 2 && Active {
		var h uint32
		for i := 0; i < len(name); i++ {
			h = h*131 + uint32(name[i])
		}
		var p int
		switch mapPolicy {
		case MapNative, MapAsc:
			p = 0
		case MapDesc:
			p = 1
		case MapRot:
			p = 2
		default:
			p = 3 + RandN(60000)
		}
		c := Decide(KDirOrder, int32(h&0x7fffffff), 1<<16, p)
		switch {
		case c == 0:
		case c == 1:
			for i, j := 0, n-1; i < j; i, j = i+1, j-1 {
				l.entries[i], l.entries[j] = l.entries[j], l.entries[i]
			}
		case c == 2:
			h := n / 2
			l.entries = append(append([]dirEntry{}, l.entries[h:]...), l.entries[:h]...)
		default:
			x := uint64(c)*0x9E3779B97F4A7C15 + 77
			for i := n - 1; i > 0; i-- {
				x ^= x >> 12
				x ^= x << 25
				x ^= x >> 27
				j := int((x * 0x2545F4914F6CDD1D) % uint64(i+1))
				l.entries[i], l.entries[j] = l.entries[j], l.entries[i]
			}
		}
		if c != 0 {
			DirListingsReordered++
		}
	}
	if len(dirListings.m) > 4096 {
		dirListings.m = map[*os.File]*dirListing{}
	}
	dirListings.m[f] = l
	return l, nil
}

// DirListingsReordered counts listings handed out in a non-ascending order (evidence).
var DirListingsReordered int

func (l *dirListing) take(n int) ([]dirEntry, error) {
	rest := l.entries[l.next:]
	if n <= 0 {
		l.next = len(l.entries)
		return rest, nil
	}
	if len(rest) == 0 {
		return nil, io.EOF
	}
	if n > len(rest) {
		n = len(rest)
	}
	l.next += n
	return rest[:n], nil
}

// FileReaddirnames is f.Readdirnames(n).
func FileReaddirnames(f *os.File, n int) ([]string, error) {
	d := sim()
	if d == nil {
		return f.Readdirnames(n)
	}
	l, err := d.listingOf(f)
	if err != nil {
		return nil, err
	}
	ee, err := l.take(n)
	out := make([]string, 0, len(ee))
	for _, e := range ee {
		out = append(out, e.Name())
	}
	return out, err
}

// FileReadDir is f.ReadDir(n).
func FileReadDir(f *os.File, n int) ([]os.DirEntry, error) {
	d := sim()
	if d == nil {
		return f.ReadDir(n)
	}
	l, err := d.listingOf(f)
	if err != nil {
		return nil, err
	}
	ee, err := l.take(n)
	out := make([]os.DirEntry, 0, len(ee))
	for _, e := range ee {
		out = append(out, e)
	}
	return out, err
}

// FileReaddir is f.Readdir(n).
func FileReaddir(f *os.File, n int) ([]os.FileInfo, error) {
	d := sim()
	if d == nil {
		return f.Readdir(n)
	}
	l, err := d.listingOf(f)
	if err != nil {
		return nil, err
	}
	ee, err := l.take(n)
	out := make([]os.FileInfo, 0, len(ee))
	for _, e := range ee {
		out = append(out, e.fileInfo)
	}
	return out, err
}

// MaxFileReads bounds the number of Read/ReadAt calls that the code under test makes on opened
// files in one run: a read loop that never ends (it ignores io.EOF, or waits for a size that the
// file does not have) is a loop of system calls, far slower per step than the step budget assumes.
const MaxFileReads = 200000

// FileRead is f.Read(b), counted. On a special file (FIFO-like) a read may deliver fewer bytes
// than asked for although more will follow - as io.Reader allows and pipes, sockets and network
// file systems do; how many is drawn from the run's PRNG.
func FileRead(f *os.File, b []byte) (int, error) {
	if d := sim(); d != nil {
		d.countRead()
		if len(b) > 1 && len(d.Special) > 0 {
			d.mu.Lock()
			_, special := d.Special[d.abs(f.Name())]
			d.mu.Unlock()
			if special {
				n := 1 + RandN(len(b))
				if RandN(3) == 0 {
					n = 1 + RandN(16)
					if n > len(b) {
						n = len(b)
					}
				}
				ShortReads++
				return f.Read(b[:n])
			}
		}
	}
	return f.Read(b)
}

// ShortReads counts reads that were cut short on special files (evidence).
var ShortReads int

// FileReadAt is f.ReadAt(b, off), counted.
func FileReadAt(f *os.File, b []byte, off int64) (int, error) {
	if d := sim(); d != nil {
		d.countRead()
	}
	return f.ReadAt(b, off)
}

func (d *Disk) countRead() {
	d.mu.Lock()
	d.fileReads++
	n := d.fileReads
	d.mu.Unlock()
	Tick()
	if n > MaxFileReads {
		panic(BudgetExceeded{What: "file-reads"})
	}
}

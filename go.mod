module verif

go 1.22

require (
	github.com/anishathalye/porcupine v1.3.0
	golang.org/x/tools v0.29.0
)

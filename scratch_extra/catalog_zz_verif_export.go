package catalog

// Added to the scratch copy only (never to /repo): the linearizability workload
// of C16 needs a RulesBuilder, whose constructor is unexported.

func VerifNewRulesBuilder(n int) *RulesBuilder { return newRulesBuilder(n) }

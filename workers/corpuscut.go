package main

import (
	"strings"

	"github.com/jsightapi/jsight-api-go-library/directive"
	"github.com/jsightapi/jsight-api-go-library/scanner"
	schemafs "github.com/jsightapi/jsight-schema-go-library/fs"
)

// corpusRuns computes, for a hand-written single-file document, the runs of
// complete sibling directives that may legally be moved into another file
// (line ranges). The directive tree is rebuilt from the library's own lexeme
// stream with the context rules the library publishes
// (Enumeration.IsAllowedForRootContext / IsAllowedForDirectiveContext). This
// only selects where to cut — it is workload, not oracle: the oracle is the
// library's result on the un-cut text. Documents the mirror cannot handle
// (keyword not first on its line, lexical error, context error, CR line ends)
// yield no runs.
func corpusRuns(text string) (runs [][2]int, ok bool) {
	defer func() {
		if recover() != nil {
			runs, ok = nil, false
		}
	}()
	if strings.Contains(text, "\r") || strings.Contains(text, "INCLUDE") {
		return nil, false
	}
	// line starts
	lineOfOff := func(off int) int { return strings.Count(text[:off], "\n") }
	lineStart := func(off int) int {
		i := strings.LastIndex(text[:off], "\n")
		return i + 1
	}
	type node struct {
		kind      directive.Enumeration
		line      int
		endLine   int // exclusive, filled when closed
		explicit  bool
		hasParam  bool
		parent    *node
		kids      []*node
		closeLine int
	}
	nLines := strings.Count(text, "\n")
	if !strings.HasSuffix(text, "\n") {
		nLines++
	}
	var tops []*node
	var cur *node     // current context
	var pending *node // directive whose keyword was seen but which is not yet placed
	var all []*node
	closeUpTo := func(n *node, line int) {
		// every open node that is n or below it ends at `line`
		for _, x := range all {
			if x.endLine == 0 {
				for a := x; a != nil; a = a.parent {
					if a == n {
						x.endLine = line
						break
					}
				}
			}
		}
	}
	place := func(atLine int) bool {
		if pending == nil {
			return true
		}
		d := pending
		pending = nil
		for {
			if cur == nil {
				if !d.kind.IsAllowedForRootContext() {
					return false
				}
				tops = append(tops, d)
				cur = d
				return true
			}
			if cur.kind.IsAllowedForDirectiveContext(d.kind) {
				if d.kind.IsHTTPRequestMethod() && d.hasParam && cur.kind == directive.URL {
					if cur.explicit {
						return false
					}
					closeUpTo(cur, d.line)
					tops = append(tops, d)
					cur = d
					return true
				}
				d.parent = cur
				cur.kids = append(cur.kids, d)
				cur = d
				return true
			}
			if cur.explicit {
				return false
			}
			closeUpTo(cur, d.line)
			cur = cur.parent
		}
	}
	sc := scanner.NewJApiScanner(schemafs.NewFile("corpus.jst", text))
	for {
		lex, je := sc.Next()
		if je != nil {
			return nil, false
		}
		if lex == nil {
			break
		}
		switch lex.Type() {
		case scanner.Keyword:
			off := int(lex.Begin())
			if strings.TrimSpace(text[lineStart(off):off]) != "" {
				return nil, false
			}
			ln := lineOfOff(off)
			if !place(ln) {
				return nil, false
			}
			de, err := directive.NewDirectiveType(lex.Value().String())
			if err != nil {
				return nil, false
			}
			pending = &node{kind: de, line: ln}
			all = append(all, pending)
		case scanner.Parameter:
			if pending != nil {
				pending.hasParam = true
			}
		case scanner.ContextExplicitOpening:
			if pending == nil {
				return nil, false
			}
			pending.explicit = true
		case scanner.ContextExplicitClosing:
			off := int(lex.Begin())
			ln := lineOfOff(off)
			if strings.TrimSpace(text[lineStart(off):off]) != "" {
				return nil, false
			}
			if !place(ln) {
				return nil, false
			}
			for {
				if cur == nil {
					return nil, false
				}
				if cur.explicit {
					// the closing parenthesis must be alone on its line
					rest := text[off+1:]
					if i := strings.Index(rest, "\n"); i >= 0 {
						rest = rest[:i]
					}
					if strings.TrimSpace(rest) != "" && !strings.HasPrefix(strings.TrimSpace(rest), "#") {
						return nil, false
					}
					closeUpTo(cur, ln+1)
					cur = cur.parent
					break
				}
				closeUpTo(cur, ln)
				cur = cur.parent
			}
		}
	}
	if !place(nLines) {
		return nil, false
	}
	for _, x := range all {
		if x.endLine == 0 {
			x.endLine = nLines
		}
	}
	add := func(kids []*node, skip int) {
		for i := skip; i < len(kids); i++ {
			for j := i + 1; j <= len(kids); j++ {
				if kids[j-1].endLine > kids[i].line {
					runs = append(runs, [2]int{kids[i].line, kids[j-1].endLine})
				}
			}
		}
	}
	skip := 0
	if len(tops) > 0 && tops[0].kind == directive.Jsight {
		skip = 1
	}
	// top-level runs must be contiguous in the text: a top-level directive that was
	// promoted out of a URL (method with a path) ends the URL's subtree, so the
	// line ranges above already tile the file.
	add(tops, skip)
	var walk func(n *node)
	walk = func(n *node) {
		if len(n.kids) > 0 && !n.explicit {
			add(n.kids, 0)
		}
		for _, k := range n.kids {
			walk(k)
		}
	}
	for _, t := range tops {
		walk(t)
	}
	return runs, len(runs) > 0
}

// simworker: workloads and oracles of the deterministic simulation. It is
// compiled inside the scratch module, against the rewritten copy of the library.
//
//	simworker run    -prop C08 -tier quick -seed S -shard k/n -from i -out DIR
//	simworker replay FILE            (prints one JSON line: {"violated":..,"class":..,"signature":..})
//	simworker dump   -prop C08 -tier quick -seed S -case i   (prints the case that index i denotes)
//	simworker selftest-fs DIR | selftest-det ...
package main

import (
	"encoding/json"
	"flag"
	"fmt"
	"os"
	"path/filepath"
	"runtime"
	"sort"
	"strconv"
	"strings"
	"syscall"
	"time"

	simrt "verif.local/simrt"
)

// runner is one property's workload + oracle.
type runner interface {
	// NumCases is the number of case indices of the tier (fixed: a seed denotes
	// one exactly repeatable batch).
	NumCases(tier string) int
	// RunCase executes case idx and returns the violations found.
	RunCase(seed uint64, idx int) []Case
	// Replay re-executes a recorded case; nil if it does not violate.
	Replay(c *Case) *Case
	// Stats returns coverage counters accumulated by this process.
	Stats() map[string]any
}

var runners = map[string]func(tier string) runner{}

var (
	sitesPath   string
	testdataDir string
	// needRestart is set by a check that found the process state damaged beyond the current case
	needRestart bool
)

func main() {
	if len(os.Args) < 2 {
		fmt.Fprintln(os.Stderr, "usage: simworker run|replay|dump ...")
		os.Exit(97)
	}
	sitesPath = os.Getenv("SIM_SITES")
	testdataDir = os.Getenv("SIM_TESTDATA")
	if os.Getenv("SIM_COLD") == "" {
		warmUp()
	}
	switch os.Args[1] {
	case "run":
		cmdRun(os.Args[2:])
	case "replay":
		cmdReplay(os.Args[2:])
	case "dump":
		cmdDump(os.Args[2:])
	case "oneshot":
		cmdOneshot()
	case "coldcase":
		cmdColdCase()
	case "gen":
		cmdGen(os.Args[2:])
	case "try":
		cmdTry(os.Args[2:])
	case "selftest-fs":
		cmdSelftestFS(os.Args[2:])
	case "selftest-det":
		cmdSelftestDet(os.Args[2:])
	default:
		fmt.Fprintln(os.Stderr, "unknown command", os.Args[1])
		os.Exit(97)
	}
}

func getRunner(prop, tier string) runner {
	mk, ok := runners[prop]
	if !ok {
		fmt.Fprintln(os.Stderr, "no runner for", prop)
		os.Exit(97)
	}
	return mk(tier)
}

// rawAppend appends a line with plain write(2) so that it survives a fatal
// error of the Go runtime a moment later.
func rawAppend(fd int, s string) {
	b := []byte(s)
	for len(b) > 0 {
		n, err := syscall.Write(fd, b)
		if err != nil {
			if err == syscall.EINTR {
				continue
			}
			return
		}
		b = b[n:]
	}
}

func cmdRun(args []string) {
	fs := flag.NewFlagSet("run", flag.ExitOnError)
	prop := fs.String("prop", "", "property id")
	tier := fs.String("tier", "quick", "quick|thorough")
	seed := fs.Uint64("seed", 1, "VERIF_SEED")
	shard := fs.String("shard", "0/1", "k/n")
	from := fs.Int("from", 0, "first case index to consider")
	out := fs.String("out", "", "output directory")
	maxSec := fs.Int("max-seconds", 0, "wall-clock guard (0 = none)")
	must(fs.Parse(args))
	var k, n int
	if _, err := fmt.Sscanf(*shard, "%d/%d", &k, &n); err != nil || n <= 0 {
		must(fmt.Errorf("bad shard %q", *shard))
	}
	must(os.MkdirAll(*out, 0o755))
	r := getRunner(*prop, *tier)
	pf, err := os.OpenFile(filepath.Join(*out, fmt.Sprintf("progress.%d.log", k)), os.O_CREATE|os.O_WRONLY|os.O_APPEND, 0o644)
	must(err)
	vf, err := os.OpenFile(filepath.Join(*out, fmt.Sprintf("violations.%d.jsonl", k)), os.O_CREATE|os.O_WRONLY|os.O_APPEND, 0o644)
	must(err)
	pfd := int(pf.Fd())
	defer runtime.KeepAlive(pf)
	simrt.OnDeadlock = func(blocked int) {
		rawAppend(pfd, fmt.Sprintf("D %d\n", blocked))
		os.Exit(7)
	}
	total := r.NumCases(*tier)
	start := time.Now()
	ran, nviol := 0, 0
	truncated := false
	for i := *from; i < total; i++ {
		if i%n != k {
			continue
		}
		if *maxSec > 0 && time.Since(start) > time.Duration(*maxSec)*time.Second {
			truncated = true
			rawAppend(pfd, fmt.Sprintf("T %d\n", i))
			break
		}
		rawAppend(pfd, fmt.Sprintf("B %d\n", i))
		vv := r.RunCase(*seed, i)
		for _, v := range vv {
			b, _ := json.Marshal(v)
			vf.Write(append(b, '\n'))
			nviol++
		}
		rawAppend(pfd, fmt.Sprintf("E %d %d\n", i, len(vv)))
		ran++
		if needRestart {
			// process state is damaged (a leaked lock): let the driver start a fresh worker at i+1
			vf.Sync()
			os.Exit(98)
		}
	}
	st := r.Stats()
	st["cases_run"] = ran
	st["violations"] = nviol
	st["truncated"] = truncated
	st["wall_s"] = time.Since(start).Seconds()
	b, _ := json.Marshal(st)
	// stats may be written several times for one shard (restarts after a crash): one line each
	sf, err := os.OpenFile(filepath.Join(*out, fmt.Sprintf("stats.%d.jsonl", k)), os.O_CREATE|os.O_WRONLY|os.O_APPEND, 0o644)
	must(err)
	sf.Write(append(b, '\n'))
	sf.Close()
	rawAppend(pfd, "DONE\n")
}

func cmdReplay(args []string) {
	if len(args) < 1 {
		must(fmt.Errorf("replay FILE"))
	}
	b, err := os.ReadFile(args[0])
	must(err)
	var c Case
	must(json.Unmarshal(b, &c))
	r := getRunner(c.Prop, "replay")
	simrt.OnDeadlock = func(blocked int) {
		out := map[string]any{"violated": true, "class": "deadlock", "signature": "deadlock", "detail": fmt.Sprintf("%d goroutines blocked", blocked)}
		jb, _ := json.Marshal(out)
		fmt.Println(string(jb))
		os.Exit(0)
	}
	v := r.Replay(&c)
	out := map[string]any{"violated": v != nil}
	if v != nil {
		out["class"], out["signature"], out["detail"] = v.Class, v.Signature, v.Detail
	}
	jb, _ := json.Marshal(out)
	fmt.Println(string(jb))
}

func cmdDump(args []string) {
	fs := flag.NewFlagSet("dump", flag.ExitOnError)
	prop := fs.String("prop", "", "property id")
	tier := fs.String("tier", "quick", "")
	seed := fs.Uint64("seed", 1, "")
	idx := fs.Int("case", 0, "")
	must(fs.Parse(args))
	r := getRunner(*prop, *tier)
	d, ok := r.(interface {
		DumpCase(seed uint64, idx int) []Case
	})
	if !ok {
		must(fmt.Errorf("runner cannot dump"))
	}
	for _, c := range d.DumpCase(*seed, *idx) {
		b, _ := json.Marshal(c)
		fmt.Println(string(b))
	}
}

// ------------------------------------------------------------ corpus

type corpusT struct {
	files map[string][]byte // virtual absolute path -> content
	dirs  map[string]bool
	roots []string // virtual paths of the .jst fixtures (sorted)
}

const corpusPrefix = "/sim/td"

var corpus *corpusT

func loadCorpus() *corpusT {
	if corpus != nil {
		return corpus
	}
	c := &corpusT{files: map[string][]byte{}, dirs: map[string]bool{}}
	if testdataDir == "" {
		must(fmt.Errorf("SIM_TESTDATA not set"))
	}
	err := filepath.Walk(testdataDir, func(path string, info os.FileInfo, err error) error {
		if err != nil {
			return err
		}
		rel, _ := filepath.Rel(testdataDir, path)
		v := filepath.Join(corpusPrefix, rel)
		if info.IsDir() {
			c.dirs[v] = true
			return nil
		}
		if strings.HasSuffix(path, ".json") || strings.HasSuffix(path, ".error") {
			return nil
		}
		b, err := os.ReadFile(path)
		if err != nil {
			return err
		}
		c.files[v] = b
		if strings.HasSuffix(path, ".jst") && !strings.Contains(rel, "/mixins/") && !strings.Contains(rel, "/.unused") {
			c.roots = append(c.roots, v)
		}
		return nil
	})
	must(err)
	sort.Strings(c.roots)
	corpus = c
	return c
}

// corpusProject returns fixture i as a self-contained project: the root plus
// every file and directory of its directory subtree that a fault-free run
// touches (found by running it once on a disk that holds the whole subtree).
var corpusProjCache = map[int]*Project{}

func corpusProject(i int) *Project {
	if p, ok := corpusProjCache[i]; ok {
		return p
	}
	c := loadCorpus()
	root := c.roots[i%len(c.roots)]
	dir := filepath.Dir(root)
	full := Project{Root: root, Cwd: "/sim/cwd", Name: strings.TrimPrefix(root, corpusPrefix+"/")}
	for path, b := range c.files {
		if strings.HasPrefix(path, dir+"/") {
			full.set(path, b)
		}
	}
	for d := range c.dirs {
		if strings.HasPrefix(d, dir+"/") {
			full.Dirs = append(full.Dirs, d)
		}
	}
	sort.Strings(full.Dirs)
	_, disk, _ := execute(&full, Opts{FixedSeed: true}, Env{MapPolicy: simrt.MapAsc}, nil, 1, nil)
	p := Project{Root: root, Cwd: full.Cwd, Name: full.Name}
	p.set(root, c.files[root])
	for _, e := range disk.Log {
		ap := e.Path
		if !filepath.IsAbs(ap) {
			ap = filepath.Join(full.Cwd, ap)
		}
		ap = filepath.Clean(ap)
		if b, ok := c.files[ap]; ok {
			p.set(ap, b)
		} else if c.dirs[ap] {
			p.Dirs = append(p.Dirs, ap)
		}
	}
	corpusProjCache[i] = &p
	return &p
}

func atoi(s string) int { n, _ := strconv.Atoi(s); return n }

func cmdGen(args []string) {
	fs := flag.NewFlagSet("gen", flag.ExitOnError)
	seed := fs.Uint64("seed", 1, "")
	n := fs.Int("n", 10, "")
	show := fs.Bool("show", false, "")
	must(fs.Parse(args))
	msgs := map[string]int{}
	acc := 0
	for i := 0; i < *n; i++ {
		r := newRng(splitmix(*seed, uint64(i)))
		d := generateDoc(r, randomCfg(r))
		text := d.Render()
		p := Project{Root: "/sim/p/main.jst"}
		p.set(p.Root, []byte(text))
		res, _, _ := execute(&p, Opts{FixedSeed: true}, refEnv, nil, 1, nil)
		if res.Accepted {
			acc++
		} else {
			m := res.RawMsg + res.Panic
			if msgs[m] == 0 && *show {
				fmt.Printf("---- %s (line %d, quote %q)\n%s\n", m, res.Line, res.Quote, text)
			}
			msgs[m]++
		}
	}
	fmt.Printf("accepted %d / %d\n", acc, *n)
	for m, c := range msgs {
		fmt.Printf("%5d %s\n", c, m)
	}
}

// cmdTry: simworker try name=content... (first is the root; \n escapes allowed)
func cmdTry(args []string) {
	p := Project{Cwd: "/sim/cwd"}
	for i, a := range args {
		kv := strings.SplitN(a, "=", 2)
		path := "/sim/p/" + kv[0]
		c := strings.ReplaceAll(kv[1], "\\n", "\n")
		p.set(path, []byte(c))
		if i == 0 {
			p.Root = path
		}
	}
	env := refEnv
	env.MapPolicy = atoiDef(os.Getenv("SIM_MAP_POLICY"), env.MapPolicy)
	res, d, dec := execute(&p, Opts{FixedSeed: true}, env, nil, uint64(atoiDef(os.Getenv("SIM_SEED"), 1)), nil)
	for _, x := range dec {
		if x.C != 0 {
			fmt.Printf("decision %+v\n", x)
		}
	}
	res.JSONIndent = ""
	b, _ := json.MarshalIndent(res, "", " ")
	fmt.Println(string(b))
	for _, e := range d.Log {
		fmt.Printf("fs: %+v\n", e)
	}
}

// warmUp parses one fixed project before anything else, so that every case of
// every process (batch worker, replay, fresh-process comparison) starts from
// the same process state: sync.Once-guarded tables built, lazily initialised
// package state populated. Cold-start behaviour is exercised separately, by
// cases that run in a fresh process with SIM_COLD set.
func warmUp() {
	p := Project{Root: "/sim/warm/main.jst", Cwd: "/sim/cwd"}
	p.set(p.Root, []byte(warmDoc))
	for _, o := range []Opts{{FixedSeed: true}, {}} {
		r, _, _ := execute(&p, o, refEnv, nil, 1, nil)
		if !r.Accepted {
			fmt.Fprintln(os.Stderr, "worker: warm-up document rejected:", r.Msg, r.Panic)
			// not fatal: a changed tree may reject it; the state is still as warm as it gets
		}
	}
	traceAcc, traceExecs = 1469598103934665603, 0
}

const warmDoc = `JSIGHT 0.3

INFO
  Title "Warm"
  Version 1.0

SERVER @s
  BaseUrl "https://example.com"

TAG @tg

ENUM @e
  ["a", "b"]

TYPE @r regex
  /ab+/

TYPE @t
  {
    "id": 1, // {min: 0}
    "k": "a", // {enum: @e}
    "r": @r,
    "arr": [1, 2]
  }

MACRO @m
(
  404 any
)

URL /x/{id}
  Path
    {
      "id": 1
    }
  GET // get
    Tags @tg
    Query "a=1"
      {
        "a": 1
      }
    200 @t
    PASTE @m
  POST
    Request
      Headers
        {
          "H": "v"
        }
      Body
        { // {allOf: "@t"}
          "extra": true
        }
    201 [@t]

URL /rpc
  Protocol json-rpc-2.0
  Method foo
    Params
      {
        "p": 1
      }
    Result
      1
`

func atoiDef(s string, d int) int {
	if s == "" {
		return d
	}
	return atoi(s)
}

package main

import (
	"encoding/json"
	"fmt"
	"github.com/jsightapi/jsight-api-go-library/directive"
	"os"
	"path/filepath"
	"regexp"
	"strings"

	simrt "verif.local/simrt"
)

// C01 — Totality: any project is accepted or rejected, never a crash or a hang.

type c01 struct {
	tier                         string
	nCorpus, nGen, nSweep, nSoup int
	sweepTargets                 []sweepTarget
	recoverSites                 map[int]string
	env                          Env
	lastDisk                     *simrt.Disk
	st                           c01stats
}

type c01stats struct {
	Exec, FaultFree, FaultRuns, Accepted, Rejected, NewErrs int
	Fired                                                   [simrt.NumFaultKinds]int
	Toctou, Reread, DepthGE2, SoftHit, MultiFault           int
	HistoryCases                                            int
	MaxTicksPerByte                                         float64
	MaxFSCalls                                              int
	Distinct                                                map[uint64]bool
	Nontrivial                                              map[uint64]bool
	Samples                                                 []any
	SweepPoints, SoupDocs, GenDocs, MutualMacroDocs         int
}

type sweepTarget struct {
	proj int    // corpus index
	path string // file of the project
	n    int    // its length
}

func init() {
	runners["C01"] = func(tier string) runner {
		c := &c01{tier: tier}
		c.nCorpus, c.nGen, c.nSweep, c.nSoup = 12000, 8000, 3000, 5000
		if tier == "thorough" {
			c.nCorpus, c.nGen, c.nSweep, c.nSoup = 400000, 300000, 0, 300000
		}
		c.st.Distinct = map[uint64]bool{}
		c.st.Nontrivial = map[uint64]bool{}
		c.loadSites()
		if tier == "thorough" {
			// every truncation point of every file of every accepted fixture (one case = 64 offsets)
			cp := loadCorpus()
			for i := range cp.roots {
				p := corpusProject(i)
				ref, _, _ := execute(p, Opts{FixedSeed: true}, refEnv, nil, 1, nil)
				if !ref.Accepted {
					continue
				}
				for path := range p.Files {
					c.sweepTargets = append(c.sweepTargets, sweepTarget{i, path, len(p.content(path))})
				}
			}
			sortSweep(c.sweepTargets)
			for _, t := range c.sweepTargets {
				c.nSweep += (t.n + sweepChunk - 1) / sweepChunk
			}
		}
		return c
	}
}

const sweepChunk = 64

func sortSweep(tt []sweepTarget) {
	for i := 1; i < len(tt); i++ {
		for j := i; j > 0 && (tt[j].proj < tt[j-1].proj || (tt[j].proj == tt[j-1].proj && tt[j].path < tt[j-1].path)); j-- {
			tt[j], tt[j-1] = tt[j-1], tt[j]
		}
	}
}

func (c *c01) loadSites() {
	c.recoverSites = map[int]string{}
	b, err := os.ReadFile(sitesPath)
	if err != nil {
		return
	}
	var t struct {
		Recovers []struct {
			ID   int    `json:"id"`
			Pkg  string `json:"pkg"`
			Func string `json:"func"`
		} `json:"recover_sites"`
	}
	if json.Unmarshal(b, &t) == nil {
		for _, r := range t.Recovers {
			c.recoverSites[r.ID] = strings.TrimPrefix(r.Pkg, "github.com/jsightapi/") + "." + r.Func
		}
	}
}

func (c *c01) NumCases(string) int { return c.nCorpus + c.nGen + c.nSweep + c.nSoup }

func (c *c01) Stats() map[string]any {
	fired := map[string]int{}
	for k, n := range c.st.Fired {
		if n > 0 {
			fired[simrt.FaultNames[k]] = n
		}
	}
	return map[string]any{
		"cases_with_process_history": c.st.HistoryCases, "line_noise_docs": genStats.Noise, "include_chains": genStats.Chains, "max_include_chain": genStats.MaxChain, "empty_run_includes": genStats.EmptyIncludes,
		"executions": c.st.Exec, "fault_free_runs": c.st.FaultFree, "fault_runs": c.st.FaultRuns, "accepted": c.st.Accepted,
		"rejected": c.st.Rejected, "newjapi_errors": c.st.NewErrs, "faults_fired": fired, "probe_toctou_split": c.st.Toctou,
		"probe_reread_changed": c.st.Reread, "probe_fault_at_depth_ge2": c.st.DepthGE2, "probe_soft_budget_hit": c.st.SoftHit,
		"probe_multi_fault_runs": c.st.MultiFault, "max_ticks_per_project_byte": c.st.MaxTicksPerByte, "max_fs_calls": c.st.MaxFSCalls,
		"distinct": distinctList(c.st.Distinct), "distinct_nontrivial_keys": distinctList(c.st.Nontrivial),
		"samples": c.st.Samples, "sweep_points": c.st.SweepPoints,
		"token_soup_docs": c.st.SoupDocs, "generated_docs": c.st.GenDocs, "mutual_macro_docs": c.st.MutualMacroDocs,
	}
}

var optionSets = []Opts{
	{FixedSeed: true}, {}, {FixedSeed: true, Entry: "file"}, {Entry: "file"},
	{FixedSeed: true, Banned: []int{21, 22}}, {Banned: []int{23}}, {FixedSeed: true, Banned: []int{7, 19, 20}},
}

func (c *c01) RunCase(seed uint64, idx int) []Case {
	var out []Case
	for _, cs := range c.DumpCase(seed, idx) {
		cs := cs
		if v := c.check(&cs, true); v != nil {
			out = append(out, *v)
		}
	}
	return out
}

func (c *c01) Replay(cs *Case) *Case { return c.check(cs, false) }

var soupTokens = []string{
	"JSIGHT", " 0.3", "\n", "\n", " ", "  ", "(", ")", "URL", " /a", "GET", "POST", " /a/{id}", "TYPE", " @t", "ENUM", " @e",
	"MACRO", " @m", "PASTE", "INCLUDE", " x.jst", "INFO", "Title", "Version", "Description", "SERVER", "BaseUrl", "Path", "Query",
	"Request", "Headers", "Body", "200", "404", " any", " empty", " regex", " jsight", "{", "}", "[", "]", "\"", "\"a\": 1", ",",
	"//", " // ann", "/*", "*/", "/*/", "#", "###", "\r\n", "\r", "\t", "@t", " @t | @e", "Protocol", " json-rpc-2.0", "Method",
	" m", "Params", "Result", "TAG", "Tags", " @tag", "/ab+/", "\\", "\x00", "\xff", "1", "true", "null", "[@t]",
	"{\n  \"a\": @t\n}", "{ // {allOf: \"@t\"}\n}", " // {enum: @e}", " // {or: [@t, @e]}", " htmlFormEncoded",
	" \"\"", "\"\"", " \"x.jst\"", "\n  5", "\n    42", "\n  1.", "\n  200", "\n 3\n", " // {type: \"\"}", " // {min: }", " // {}",
	"\n  Path\n    @t\n", " @t regex\n  /ab+/\n", "\n  Path\n    {\"id\": 1}\n",
	longRun("\x80", 260), longRun("\xbf", 199) + "x", longRun("a", 300), longRun(" ", 300), longRun("\xff", 210), longRun("\x00", 230),
	"URL /" + longRun("\x9f", 220), "Description\n  " + longRun("\xa0", 250) + "\n", longRun("(", 60), longRun("{\"a\":", 40),
}

// soupTails end a document: short last lines at the very end of the buffer.
var soupTails = []string{
	"\r", "\nINCLUDE x.jst\r", "\r\n", " // a\r",
	"\nGET /a\n  Description\n    5", "\nGET /a\n  Description\n    42", "\nINFO\n  Description\n  text\n  1.", "\nDescription\n 3",
	"\nGET /a\n  Description\n    2\n", "\nGET /a // a", "\nGET /a /*", "\nTYPE @t\n  {", "\nURL /a\n(", "\nENUM @e\n  [", "\nGET /a\n  200\n    1 // {",
}

func longRun(s string, n int) string { return strings.Repeat(s, n) }

func (c *c01) DumpCase(seed uint64, idx int) []Case {
	r := newRng(splitmix(seed, uint64(idx)))
	base := Case{Prop: "C01", Seed: seed, Index: idx, Env: refEnv}
	base.Opts = optionSets[r.n(len(optionSets))]
	if r.chance(250) {
		base.Env.Slack = []int{1, 2, 512}[r.n(3)]
	}
	switch {
	case idx < c.nCorpus:
		base.Kind = "corpus"
		cp := loadCorpus()
		pi := idx % len(cp.roots)
		if idx >= len(cp.roots) {
			pi = r.n(len(cp.roots))
		}
		base.Project = *corpusProject(pi)
		if idx >= len(cp.roots) && r.chance(350) {
			base.Project = lineNoise(&base.Project, r)
			base.Kind = "corpus-noise"
		}
		base.Extra = map[string]any{"nfaults": faultCount(r, idx < len(cp.roots)), "fseed": r.n(1 << 30)}
		if idx >= len(cp.roots) && r.chance(200) {
			base.Extra["history"] = c.historyProjects(r)
		}
		return []Case{base}
	case idx < c.nCorpus+c.nGen:
		base.Kind = "gen"
		cfg := randomCfg(r)
		if r.chance(250) {
			cfg.RuleFuzz = true
		}
		if r.chance(250) {
			cfg.PathBodyFuzz = true
			cfg.Types += 2
		}
		if r.chance(80) {
			cfg.MutualTypesMissing = true
		}
		if !cfg.RuleFuzz && r.chance(120) {
			cfg.PathRuleFuzz = true
		}
		if r.chance(60) {
			cfg.RecursiveOr = true
		}
		if r.chance(150) {
			cfg.RPC = true
		}
		switch r.n(11) {
		case 10:
			cfg.MacroLadder = 8 + r.n(28)
		case 8, 9:
			cfg.MacroGraph = 2 + r.n(5)
		case 0:
			cfg.MutualMacros = 1 + r.n(4)
		case 1:
			cfg.RecursiveMacros = 1 + r.n(3)
		case 2:
			cfg.Deep = 30 + r.n(200)
		case 3:
			cfg.BadTypes, cfg.BadEnums = r.n(3), r.n(3)
		}
		if idx == c.nCorpus+1 || r.chance(2) {
			// nesting far beyond what anybody writes by hand (and beyond what encoding/json serialises)
			cfg.Abyss = []int{600, 2500, 5200, 5201, 12000}[r.n(5)]
			if idx == c.nCorpus+1 {
				cfg.Abyss = 5200
			}
		}
		if idx == c.nCorpus || (cfg.MacroLadder > 0 && r.chance(3)) {
			// the ladder pasted from its top: k small macros, 2^k directives
			cfg.MacroLadder = 20 + r.n(10)
			cfg.LadderTop = true
		}
		d := generateDoc(r, cfg)
		single, multi, _ := cutProject(d, r, "/sim/proj/api", 4)
		if r.chance(300) {
			base.Project = single
		} else {
			base.Project = multi
		}
		if r.chance(350) {
			base.Project = lineNoise(&base.Project, r)
		}
		base.Extra = map[string]any{"nfaults": faultCount(r, r.chance(200)), "fseed": r.n(1 << 30), "mutual": cfg.MutualMacros}
		if !cfg.LadderTop && r.chance(200) {
			base.Extra["history"] = c.historyProjects(r)
		}
		respellRoot(&base.Project, r)
		return []Case{base}
	case idx < c.nCorpus+c.nGen+c.nSweep:
		base.Kind = "sweep"
		base.Opts = Opts{FixedSeed: true}
		si := idx - c.nCorpus - c.nGen
		if c.tier != "thorough" {
			// quick: sampled truncation/flip points of random fixtures
			cp := loadCorpus()
			pi := r.n(len(cp.roots))
			p := corpusProject(pi)
			base.Project = *p
			files := sortedKeys(p.Files)
			path := files[r.n(len(files))]
			n := len(p.content(path))
			var offs []int
			for k := 0; k < 16; k++ {
				offs = append(offs, r.n(n+1))
			}
			base.Extra = map[string]any{"path": path, "offsets": offs, "fseed": r.n(1 << 30)}
			return []Case{base}
		}
		for _, t := range c.sweepTargets {
			chunks := (t.n + sweepChunk - 1) / sweepChunk
			if si < chunks {
				base.Project = *corpusProject(t.proj)
				var offs []int
				for o := si * sweepChunk; o < (si+1)*sweepChunk && o < t.n; o++ {
					offs = append(offs, o)
				}
				base.Extra = map[string]any{"path": t.path, "offsets": offs, "fseed": r.n(1 << 30)}
				return []Case{base}
			}
			si -= chunks
		}
		return nil
	default:
		base.Kind = "soup"
		n := 1 + r.n(10)
		var sb strings.Builder
		if r.chance(600) {
			sb.WriteString("JSIGHT 0.3\n")
		}
		if r.chance(200) {
			// INCLUDE with a name over the characters that matter, bare or quoted (also the empty quoted name)
			name := ""
			for k := r.n(5); k > 0; k-- {
				name += string("./\\a\"x"[r.n(6)])
			}
			if r.chance(400) {
				name = "\"" + name + "\""
			}
			sb.WriteString("INCLUDE " + name + "\n")
			n = r.n(3)
		}
		for i := 0; i < n; i++ {
			sb.WriteString(soupTokens[r.n(len(soupTokens))])
		}
		if r.chance(150) {
			sb.WriteString(soupTails[r.n(len(soupTails))])
		}
		if r.chance(60) {
			// one-line documents whose only line break (if any) is a lone trailing CR
			sb.Reset()
			sb.WriteString([]string{"INCLUDE x.jst\r", "INCLUDE nope.jst\r", "JSIGHT 0.3\r", "JSIGHT 0.3 GET\r", "(\r", "GET /a // x\r", "INCLUDE x.jst", "\r"}[r.n(8)])
		}
		p := Project{Root: "/sim/proj/s/main.jst", Cwd: "/sim/cwd"}
		p.set(p.Root, []byte(sb.String()))
		// a sibling that soup INCLUDEs can hit: empty, or soup again
		var sb2 strings.Builder
		for i := r.n(4); i > 0; i-- {
			sb2.WriteString(soupTokens[r.n(len(soupTokens))])
		}
		if r.chance(150) {
			sb2.Reset()
			sb2.WriteString([]string{"INCLUDE y.jst\r", "GET /x\r", "TYPE @q\r", "\r"}[r.n(4)])
		}
		p.set("/sim/proj/s/x.jst", []byte(sb2.String()))
		base.Project = p
		base.Extra = map[string]any{"nfaults": 0, "fseed": 0}
		return []Case{base}
	}
}

func sortedKeys(m map[string]string) []string {
	out := make([]string, 0, len(m))
	for k := range m {
		out = append(out, k)
	}
	for i := 1; i < len(out); i++ {
		for j := i; j > 0 && out[j] < out[j-1]; j-- {
			out[j], out[j-1] = out[j-1], out[j]
		}
	}
	return out
}

func faultCount(r *rng, faultFree bool) int {
	if faultFree {
		return 0
	}
	switch x := r.n(10); {
	case x < 6:
		return 1
	case x < 9:
		return 2
	}
	return 3
}

var flipBytes = []byte("()\"\\/*#{}[]@\r\n\x00\x80\xff:, ")

// planFaults places n faults at calls of the reference run.
func planFaults(r *rng, p *Project, ref *simrt.Disk, n int) []simrt.PlannedFault {
	if n == 0 || len(ref.Log) == 0 {
		return nil
	}
	// swarm: a random subset of kinds is enabled for this run
	var kinds []int
	for k := simrt.FEnoent; k < simrt.NumFaultKinds; k++ {
		if r.chance(550) {
			kinds = append(kinds, k)
		}
	}
	if len(kinds) == 0 {
		kinds = []int{simrt.FEnoent + r.n(simrt.NumFaultKinds-1)}
	}
	var plan []simrt.PlannedFault
	for i := 0; i < n; i++ {
		ci := r.n(len(ref.Log))
		// bias: later calls (deeper includes) and reads
		if r.chance(500) {
			ci = len(ref.Log) - 1 - r.n((len(ref.Log)+1)/2)
		}
		e := ref.Log[ci]
		k := kinds[r.n(len(kinds))]
		if !isReadOp(e.Op) && k >= simrt.FTorn {
			// content faults do not apply to stat: move to the read that follows, if any
			for cj := ci + 1; cj < len(ref.Log); cj++ {
				if isReadOp(ref.Log[cj].Op) && ref.Log[cj].Path == e.Path {
					ci, e = cj, ref.Log[cj]
					break
				}
			}
		}
		f := simrt.PlannedFault{Call: ci, Kind: k}
		size := e.N
		if size <= 0 {
			size = 1
		}
		switch k {
		case simrt.FTorn, simrt.FZeroTail:
			f.P1 = r.n(size)
			if r.chance(500) {
				f.P1 = nearStructural(r, p, e.Path, f.P1)
			}
		case simrt.FFlip:
			f.P1 = r.n(size)
			if r.chance(400) {
				f.P1 = nearStructural(r, p, e.Path, f.P1)
			}
			f.P2 = int(flipBytes[r.n(len(flipBytes))])
		case simrt.FSwap:
			f.P1 = r.n(len(p.Files) + 1)
		}
		plan = append(plan, f)
	}
	return plan
}

// nearStructural moves an offset next to a structural byte of the file.
func nearStructural(r *rng, p *Project, path string, off int) int {
	ap := path
	if !filepath.IsAbs(ap) {
		ap = filepath.Join(p.cwd(), ap)
	}
	b := p.content(filepath.Clean(ap))
	if len(b) == 0 {
		return off
	}
	for d := 0; d < len(b); d++ {
		for _, o := range []int{off + d, off - d} {
			if o >= 0 && o < len(b) && strings.IndexByte("\n\"()/{}[]@#", b[o]) >= 0 {
				return clampInt(o+r.n(3)-1, 0, len(b)-1)
			}
		}
	}
	return off
}

func clampInt(v, lo, hi int) int {
	if v < lo {
		return lo
	}
	if v > hi {
		return hi
	}
	return v
}

func (c *c01) exec(p *Project, o Opts, plan []simrt.PlannedFault, seed uint64) (Result, *simrt.Disk) {
	c.st.Exec++
	r, d, _ := execute(p, o, c.env, plan, seed, nil)
	c.lastDisk = d
	for k, n := range d.Fired {
		c.st.Fired[k] += n
	}
	c.st.Toctou += d.ToctouSplit
	c.st.Reread += d.RereadChanged
	if r.SoftHit {
		c.st.SoftHit++
	}
	if os.Getenv("SIM_DEBUG_HEAVY") != "" && (r.SoftHit || d.Calls > 1000) {
		fmt.Fprintf(os.Stderr, "HEAVY calls=%d ticks=%d bytes=%d files=%d plan=%v root=%s\n", d.Calls, r.Ticks, p.totalBytes(), len(p.Files), plan, p.Root)
		if os.Getenv("SIM_DEBUG_HEAVY") == "2" {
			for k, v := range projectText(p) {
				fmt.Fprintf(os.Stderr, "--- %s\n%s\n", k, v)
			}
		}
	}
	if tb := float64(r.Ticks) / float64(p.totalBytes()+200); tb > c.st.MaxTicksPerByte {
		c.st.MaxTicksPerByte = tb
	}
	if d.Calls > c.st.MaxFSCalls {
		c.st.MaxFSCalls = d.Calls
	}
	switch {
	case r.NewErr != "":
		c.st.NewErrs++
	case r.Accepted:
		c.st.Accepted++
	case r.Panic == "":
		c.st.Rejected++
	}
	return r, d
}

// oracle: the outcome of one execution is a catalog or a diagnostic; nothing else.
func (c *c01) judge(cs *Case, r *Result, plan []simrt.PlannedFault) *Case {
	mk := func(class, sig, detail string) *Case {
		v := violation(cs, class, sig, detail)
		v.Plan = plan
		return v
	}
	if r.Panic != "" {
		if r.PanicKind == "deadlock" {
			return mk("hang", r.PanicSig, "the execution wants a lock that nobody will ever release (leaked by an earlier execution of this process, or held by itself): stage "+r.Stage)
		}
		if r.PanicKind == "budget" {
			sig := r.PanicSig
			detail := fmt.Sprintf("hard step budget reached in stage %s after %d steps, %d fs calls", r.Stage, r.Ticks, r.FSCalls)
			if c.lastDisk != nil {
				texts := []string{string(lastRootContent)}
				lr := c.lastDisk.LastRead()
				for _, k := range sortedKeys(lr) {
					texts = append(texts, lr[k])
				}
				nMacros := 0
				for _, t := range texts {
					nMacros += strings.Count(t, "MACRO")
				}
				if os.Getenv("SIM_DEBUG_BUDGET") != "" {
					fmt.Fprintf(os.Stderr, "budget: pasteDepth=%d macros=%d texts=%d\n", lastPasteDepth, nMacros, len(texts))
				}
				// Two independent signs of the listed finding (an acyclic paste graph of k macros that
				// expands to about 2^k directives): the budget ran out inside PASTE expansion nested no
				// deeper than the project has macros (a cycle would be nested without bound), or the
				// texts as delivered describe an acyclic paste graph with a huge expansion (the budget
				// then often runs out later, while the expanded list is processed).
				n, acyclic := pasteExpansion(texts)
				inExpansion := lastPasteDepth >= 1 && lastPasteDepth <= nMacros
				if inExpansion || (acyclic && n > 100000) {
					sig += "@paste-expansion"
					detail += fmt.Sprintf("; PASTE expansion: %d levels deep on the stack when the budget ran out, %d MACRO directives in the project", lastPasteDepth, nMacros)
					if acyclic && n > 0 {
						detail += fmt.Sprintf(", acyclic paste graph, full expansion about %.3g directives", n)
					}
				}
			}
			return mk("nontermination", sig, detail)
		}
		return mk("crash", r.PanicSig, "stage="+r.Stage+" panic="+r.Panic)
	}
	if r.RecoveredRuntime > 0 {
		site := c.recoverSites[r.RecoveredRuntimeSite]
		return mk("runtime-fault-as-diagnostic", "raised-in:"+r.RecoveredRuntimeOrigin+",recovered-in:"+site,
			fmt.Sprintf("a Go runtime fault was recovered at %s and turned into a result: %s (verdict accepted=%v msg=%q)", site, r.RecoveredRuntimeMsg, r.Accepted, r.Msg))
	}
	if r.LeakedLocks > 0 {
		// the project was processed, but a lock is still held: the next project of this process hangs.
		// Show it with a probe parse, report, and ask the driver for a fresh worker process.
		probe := Project{Root: "/sim/probe/main.jst", Cwd: "/sim/cwd"}
		probe.set(probe.Root, []byte(warmDoc))
		pr, _, _ := execute(&probe, Opts{FixedSeed: true}, refEnv, nil, 1, nil)
		detail := fmt.Sprintf("%d lock(s) still held after the execution returned (verdict accepted=%v msg=%q)", r.LeakedLocks, r.Accepted, r.Msg)
		sig := "lock-leaked"
		if pr.PanicKind == "deadlock" {
			detail += "; the next project processed in this process blocks forever: " + pr.PanicSig
			sig = "lock-leaked," + pr.PanicSig
		}
		needRestart = true
		return mk("hang", sig, detail)
	}
	for _, m := range []string{r.Msg, r.NewErr, r.SerErr} {
		if strings.Contains(m, "runtime error:") {
			return mk("runtime-fault-as-diagnostic", "message:"+normPanicMsg(m[strings.Index(m, "runtime error:"):]), "diagnostic text carries a Go runtime fault: "+m)
		}
	}
	if r.Accepted && r.SerErr != "" {
		if strings.Contains(r.SerErr, "exceeded max depth") {
			return mk("serialise-failed", "encoding/json:exceeded-max-depth", "accepted project could not be serialised: "+trunc(r.SerErr, 200)+" ... "+r.SerErr[len(r.SerErr)-clampInt(120, 0, len(r.SerErr)):])
		}
		return mk("serialise-failed", normPanicMsg(r.SerErr), "accepted project could not be serialised: "+r.SerErr)
	}
	if r.Accepted && (!json.Valid([]byte(r.JSON)) || !json.Valid([]byte(r.JSONIndent))) {
		return mk("serialise-failed", "invalid-json", "accepted project serialised to invalid JSON")
	}
	return nil
}

func (c *c01) note(p *Project, plan []simrt.PlannedFault, d *simrt.Disk, generated bool) {
	h := hash64(fmt.Sprint(projectDigest(p), plan))
	c.st.Distinct[h] = true
	fired := 0
	for k := 1; k < simrt.NumFaultKinds; k++ {
		fired += d.Fired[k]
	}
	if fired > 0 || generated {
		c.st.Nontrivial[h] = true
	}
}

func projectDigest(p *Project) uint64 {
	var h uint64 = 7
	for _, k := range sortedKeys(p.Files) {
		h = h*1099511628211 ^ hash64(k) ^ hash64(p.Files[k])*31
	}
	return h ^ hash64(p.Root)
}

func (c *c01) check(cs *Case, record bool) *Case {
	p := &cs.Project
	c.env = cs.Env
	switch cs.Kind {
	case "sweep":
		path, _ := cs.Extra["path"].(string)
		offs, _ := cs.Extra["offsets"].([]any)
		var offsets []int
		for _, o := range offs {
			if n, ok := toInt(o); ok {
				offsets = append(offsets, n)
			}
		}
		if oi, ok := cs.Extra["offsets"].([]int); ok {
			offsets = oi
		}
		_, refDisk := c.exec(p, cs.Opts, nil, cs.Seed)
		// the read call of that path
		call := -1
		for i, e := range refDisk.Log {
			if isReadOp(e.Op) && filepath.Clean(e.Path) == path {
				call = i
				break
			}
		}
		if call < 0 {
			return nil
		}
		fseed, _ := toInt(cs.Extra["fseed"])
		r := newRng(uint64(fseed) + 1)
		for _, off := range offsets {
			plans := [][]simrt.PlannedFault{
				{{Call: call, Kind: simrt.FTorn, P1: off}},
				{{Call: call, Kind: simrt.FFlip, P1: off, P2: int(flipBytes[r.n(len(flipBytes))])}},
			}
			if c.tier == "thorough" || true {
				plans = append(plans, []simrt.PlannedFault{{Call: call, Kind: simrt.FZeroTail, P1: off}})
			}
			for _, plan := range plans {
				got, d := c.exec(p, cs.Opts, plan, cs.Seed)
				if record {
					c.st.FaultRuns++
					c.st.SweepPoints++
					c.note(p, plan, d, false)
				}
				if v := c.judge(cs, &got, plan); v != nil {
					v.Kind = "corpus" // replay as an ordinary planned-fault case
					v.Extra = map[string]any{"explicit_plan": true}
					return v
				}
				if path == p.absRoot() && plan[0].Kind != simrt.FZeroTail {
					// the same damaged root handed over in memory (exact capacity), not read from the disk
					fo := cs.Opts
					fo.Entry = "file"
					fplan := []simrt.PlannedFault{{Call: -1, Kind: plan[0].Kind, P1: plan[0].P1, P2: plan[0].P2}}
					got, d := c.exec(p, fo, fplan, cs.Seed)
					if record {
						c.st.FaultRuns++
						c.st.SweepPoints++
						c.note(p, fplan, d, false)
					}
					if v := c.judge(cs, &got, fplan); v != nil {
						v.Kind = "corpus"
						v.Opts = fo
						v.Extra = map[string]any{"explicit_plan": true}
						return v
					}
				}
			}
		}
		return nil
	}
	// what this process handled before (part of the case): whatever those projects leave behind -
	// pooled objects, package-level state - must not make this one crash or hang
	hist := decodeProjects(cs.Extra["history"])
	for i := range hist {
		if i > 0 {
			simrt.KeepPoolsOnce()
		}
		hr, _ := c.exec(&hist[i], cs.Opts, nil, cs.Seed+50+uint64(i))
		if v := c.judge(cs, &hr, nil); v != nil {
			v.Detail = fmt.Sprintf("in project %d of the history of this case (%s): %s", i, hist[i].Name, v.Detail)
			return v
		}
	}
	if len(hist) > 0 {
		simrt.KeepPoolsOnce()
		if record {
			c.st.HistoryCases++
		}
	}
	// corpus / gen / soup: reference run, then the faulted run
	ref, refDisk := c.exec(p, cs.Opts, nil, cs.Seed)
	if record {
		c.st.FaultFree++
		switch cs.Kind {
		case "soup":
			c.st.SoupDocs++
		case "gen":
			c.st.GenDocs++
			if m, _ := toInt(cs.Extra["mutual"]); m > 0 {
				c.st.MutualMacroDocs++
			}
		}
		c.note(p, nil, refDisk, cs.Kind != "corpus")
		if len(c.st.Samples) < 3 && cs.Kind == "gen" && len(p.Files) > 1 {
			c.st.Samples = append(c.st.Samples, map[string]any{"kind": cs.Kind, "files": projectText(p), "opts": cs.Opts, "accepted": ref.Accepted, "msg": ref.Msg})
		}
	}
	if v := c.judge(cs, &ref, nil); v != nil {
		return v
	}
	var plan []simrt.PlannedFault
	if ex, _ := cs.Extra["explicit_plan"].(bool); ex {
		plan = cs.Plan
	} else {
		nf, _ := toInt(cs.Extra["nfaults"])
		fseed, _ := toInt(cs.Extra["fseed"])
		plan = planFaults(newRng(uint64(fseed)+7), p, refDisk, nf)
	}
	if len(plan) == 0 {
		// simulator self-check: a second fault-free run gives exactly the reference result
		again, _ := c.exec(p, cs.Opts, nil, cs.Seed)
		if same, what := ref.Same(&again); !same {
			fmt.Fprintf(os.Stderr, "worker: fault-free re-run differs (%s): nondeterminism escaped the seams\n", what)
			os.Exit(97)
		}
		return nil
	}
	got, d := c.exec(p, cs.Opts, plan, cs.Seed)
	if record {
		c.st.FaultRuns++
		if len(plan) > 1 {
			c.st.MultiFault++
		}
		for _, f := range plan {
			if f.Call < len(refDisk.Log) {
				rel, _ := filepath.Rel(filepath.Dir(p.absRoot()), filepath.Clean(refDisk.Log[f.Call].Path))
				if strings.Count(rel, "/") >= 1 {
					c.st.DepthGE2++
				}
			}
		}
		c.note(p, plan, d, cs.Kind != "corpus")
		if len(c.st.Samples) < 6 && len(plan) > 1 {
			c.st.Samples = append(c.st.Samples, map[string]any{"kind": cs.Kind, "project": p.Name, "plan": plan, "fs_log": d.Log, "accepted": got.Accepted, "msg": got.Msg})
		}
	}
	if v := c.judge(cs, &got, plan); v != nil {
		v.Extra = map[string]any{"explicit_plan": true}
		return v
	}
	return nil
}

// ------------------------------------------------------------------ paste expansion size

var (
	reMacroLine = regexp.MustCompile(`^[ \t]*MACRO[ \t]+(@[A-Za-z0-9_]+)`)
	rePasteLine = regexp.MustCompile(`^[ \t]*PASTE[ \t]+(@[A-Za-z0-9_]+)`)
)

// pasteExpansion reads the texts that the library was given (root and included files as delivered)
// line by line and returns how many directives the full expansion of all PASTE directives outside
// macro bodies produces, and whether the paste graph is acyclic. It is used for one thing only: to
// tell the listed finding "an acyclic paste graph of k small macros expands to 2^k directives" from
// any other way of not terminating.
func pasteExpansion(texts []string) (size float64, acyclic bool) {
	type macro struct {
		own    float64
		pastes []string
	}
	macros := map[string]*macro{}
	var top []string
	for _, txt := range texts {
		txt = strings.ReplaceAll(strings.ReplaceAll(txt, "\r\n", "\n"), "\r", "\n")
		var cur *macro
		depth := 0
		for _, ln := range strings.Split(txt, "\n") {
			t := strings.TrimSpace(ln)
			if i := strings.Index(t, " //"); i >= 0 {
				t = strings.TrimSpace(t[:i])
			}
			switch {
			case t == "" || strings.HasPrefix(t, "#"):
			case reMacroLine.MatchString(ln): // also inside an unclosed body: the text may be damaged
				cur = &macro{}
				macros[reMacroLine.FindStringSubmatch(ln)[1]] = cur
				depth = 0
			case cur != nil && t == "(":
				depth++
			case cur != nil && t == ")":
				depth--
				if depth <= 0 {
					cur = nil
				}
			case rePasteLine.MatchString(ln):
				n := rePasteLine.FindStringSubmatch(ln)[1]
				if cur != nil {
					cur.pastes = append(cur.pastes, n)
				} else {
					top = append(top, n)
				}
			default:
				if cur != nil {
					cur.own++
				}
			}
		}
	}
	state := map[string]int{} // 1 on the path, 2 done
	memo := map[string]float64{}
	acyclic = true
	var sz func(n string) float64
	sz = func(n string) float64 {
		m := macros[n]
		if m == nil {
			return 0
		}
		switch state[n] {
		case 1:
			acyclic = false
			return 0
		case 2:
			return memo[n]
		}
		state[n] = 1
		s := m.own
		for _, p := range m.pastes {
			s += sz(p)
		}
		state[n] = 2
		memo[n] = s
		return s
	}
	for n := range macros {
		sz(n) // cycles anywhere in the graph, pasted or not
	}
	for _, n := range top {
		size += sz(n)
	}
	return size, acyclic
}

// historyProjects: 1-3 projects that this process handled before the project of the case -
// fixtures (a third of them are invalid) and generated documents with planted faults.
func (c *c01) historyProjects(r *rng) []Project {
	var out []Project
	cp := loadCorpus()
	for k := 1 + r.n(3); k > 0; k-- {
		if r.chance(250) {
			// a project whose included file stops right after a keyword, its parameter or its
			// annotation (no line break): whatever the scanner had pending when it was rejected
			kw := directive.Enumeration(r.n(nDirectiveKinds)).String()
			if kw == "HTTP-response-code" || kw == "" {
				kw = "200"
			}
			text := kw
			switch r.n(3) {
			case 1:
				text += " " + []string{"@n", "/p", "x.jst", "any"}[r.n(4)]
			case 2:
				text += " " + []string{"@n", "/p"}[r.n(2)] + " // x"
			}
			if r.chance(300) {
				text += " // x"
			}
			hp := Project{Root: "/sim/hist/stub/main.jst", Cwd: "/sim/cwd", Name: "stub:" + text}
			hp.set(hp.Root, []byte("JSIGHT 0.3\n"+[]string{"", "URL /u\n", "GET /g\n  Request\n"}[r.n(3)]+"INCLUDE inc.jst\n"))
			hp.set("/sim/hist/stub/inc.jst", []byte(text))
			out = append(out, hp)
			continue
		}
		if r.chance(600) {
			for tries := 0; tries < 8; tries++ {
				if i := r.n(len(cp.roots)); lightFixture(i) {
					out = append(out, *corpusProject(i))
					break
				}
			}
			continue
		}
		cfg := randomCfg(r)
		cfg.RecursiveMacros, cfg.UnusedPathParams, cfg.BadTypes, cfg.BadEnums = r.n(3), r.n(3), r.n(3), r.n(3)
		d := generateDoc(r, cfg)
		single, multi, _ := cutProject(d, r, "/sim/hist/api", 3)
		if r.chance(400) {
			out = append(out, single)
		} else {
			if r.chance(500) {
				// one of its files was cut short when this process read it (saved half-way)
				files := sortedKeys(multi.Files)
				f := files[r.n(len(files))]
				c := multi.content(f)
				if len(c) > 0 {
					cut := r.n(len(c))
					if r.chance(600) {
						// ... at the end of a line, the line break not yet written
						var ends []int
						for i, b := range c {
							if b == '\n' && i > 0 {
								ends = append(ends, i)
							}
						}
						if len(ends) > 0 {
							cut = ends[r.n(len(ends))]
						}
					}
					multi.set(f, c[:cut])
				}
			}
			out = append(out, multi)
		}
	}
	return out
}

func decodeProjects(v any) []Project {
	if v == nil {
		return nil
	}
	if pp, ok := v.([]Project); ok {
		return pp
	}
	b, _ := json.Marshal(v)
	var out []Project
	json.Unmarshal(b, &out)
	return out
}

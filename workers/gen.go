package main

import (
	"fmt"
	"path/filepath"
	"strings"
)

// Seeded generator of JSight API projects. It is a workload, not an oracle: no
// check compares the library's output with the model a text was rendered from.

// Node is one directive with its subtree.
type Node struct {
	KW       string
	Params   string
	Ann      string
	AnnStyle int      // 0 "// text", 1 text with tabs and runs of spaces, 2 multi-line "/* ... */"
	Body     []string // body lines (without indentation)
	Kids     []*Node
	Explicit bool
	// filled by render
	from, to int // line range of the subtree [from,to)
}

type Doc struct {
	Top   []*Node
	lines []string
	// twins are nodes whose children are identical texts: preferred cut candidates
	twins []*Node
	// LineBreak: "" (LF), "\r\n" or "\r"
	LineBreak string
}

type genCfg struct {
	Types, Enums, Macros, URLs, Servers, Tags int
	RPC                                       bool
	PathRuleFuzz                              bool   // only the rule of a Path parameter is an edge value; the rest of the document is clean
	RuleFuzz                                  bool   // schema rules with edge values ({type: ""}, {or: []}, ...): mostly invalid documents
	PathBodyFuzz                              bool   // Path bodies that are not objects (type references incl. regex types, arrays, scalars)
	AliasTypes                                int    // types whose body is just a reference to another type (chains)
	LineBreak                                 string // "" = LF; "\r\n" or "\r": the whole document uses this line break
	Huge                                      bool   // a block comment of more than 1 MiB among the top-level directives
	MacroLadder                               int    // n macros, each pasting the next one twice (acyclic; only the last is pasted for real)
	RecursiveOr                               bool   // OR types that refer back to themselves, used as Headers/Body/Query/Request
	Abyss                                     int    // a TYPE whose body is nested this deep on one line (arrays if even, objects if odd)
	LadderTop                                 bool   // ... unless this is set: then the first one is pasted, and the expansion has 2^n directives
	MutualTypesMissing                        bool   // a long type with an unknown reference and a short type referring back to it, the short one last
	NoHTTP                                    bool   // no URL / method directives outside macros
	LateFaults                                int    // this many different faults that only the last pipeline stage (validateCatalog) finds
	PathTypeRefs                              int    // this many URLs whose Path describes its parameter by a reference to an object type
	EnumMismatch                              int    // 1: a value that is not in its enum (invalid); 2: the same document with the value added to the enum (valid twin)
	TwinURLs                                  bool   // two URLs with identical children (a method with its own Path): one file can be included from both
	MessyAnn                                  bool   // annotations with tabs, runs of spaces and multi-line /* */ form
	UnusedMacros                              int    // macros that nobody pastes, with bodies of kinds used nowhere else
	MacroGraph                                int    // n macros with random PASTE edges (cycles possible) and a real PASTE
	DupPathParams                             int    // a path with this many different parameter names each used twice
	PathRedescribe                            int    // a Path directive describing again this many parameters of an outer Path
	EnumsInTypes                              bool   // enum rules inside TYPE bodies (the library mishandles some of these documents)
	// planted authoring faults (documents on which hashed iteration order can show)
	RecursiveMacros  int
	UnusedPathParams int
	BadEnums         int
	BadTypes         int
	MutualMacros     int // macros pasting each other in a cycle of this length
	Deep             int // extra nesting depth of schema bodies
}

type gen struct {
	keyN     int
	objTypes map[string]bool
	minRef   int // types with index >= minRef may be referenced (keeps the type graph acyclic)
	r        *rng
	cfg      genCfg
	types    []string
	enums    []string
	macros   []string // response macros
	tags     []string
}

func randomCfg(r *rng) genCfg {
	c := genCfg{
		Types: r.n(5), Enums: r.n(3), Macros: r.n(3), URLs: 1 + r.n(3), Servers: r.n(3), Tags: r.n(3),
		RPC: r.chance(250), EnumsInTypes: r.chance(300), MessyAnn: r.chance(350),
	}
	if r.chance(250) {
		c.UnusedMacros = 1 + r.n(2)
	}
	c.TwinURLs = r.chance(200)
	if r.chance(150) {
		c.AliasTypes = 1 + r.n(3)
	}
	switch r.n(40) {
	case 0, 1:
		c.LineBreak = "\r\n"
	case 2:
		c.LineBreak = "\r"
	}
	c.NoHTTP = r.chance(80)
	return c
}

func (g *gen) ident(prefix string, i int) string { return fmt.Sprintf("%s%d", prefix, i) }

var scalarExamples = []string{`1`, `"abc"`, `true`, `12.5`, `null`, `"2021-01-02"`, `-7`, `"x@y.zz"`}
var scalarRules = map[string][]string{
	`1`:            {``, `{min: 0}`, `{optional: true}`, `{type: "integer"}`},
	`"abc"`:        {``, `{minLength: 1}`, `{optional: true}`, `{maxLength: 100}`},
	`true`:         {``, `{const: true}`},
	`12.5`:         {``, `{precision: 2}`, `{type: "float"}`},
	`null`:         {``},
	`"2021-01-02"`: {``, `{type: "date"}`},
	`-7`:           {``, `{nullable: true}`},
	`"x@y.zz"`:     {``, `{type: "email"}`},
}

var fuzzRules = []string{
	`{type: ""}`, `{type: "@"}`, `{type: "@t0"}`, `{type: "nope"}`, `{or: []}`, `{or: [""]}`, `{or: [{type: ""}]}`, `{enum: []}`, `{enum: ""}`,
	`{enum: @}`, `{min: "a"}`, `{min: }`, `{regex: ""}`, `{regex: "("}`, `{allOf: ""}`, `{allOf: []}`, `{allOf: "@t0"}`, `{additionalProperties: "x"}`,
	`{additionalProperties: "@t0"}`, `{optional: 1}`, `{const: ""}`, `{}`, `{`, `{nullable: true, nullable: true}`, `{minLength: -1}`, `{precision: 999}`,
	`{or: [{min: 1}, {type: "string"}]}`, `{or: [{type: "integer"}, {minLength: 1}]}`, `{or: [@t0, {max: 5}]}`, `{or: ["@t0", "string"]}`, `{or: [{}]}`,
	`{or: [{type: "@t0"}, {type: "@t1"}]}`, `{or: [{enum: [1, 2]}, {type: "string"}]}`, `{type: "@t0 | @t1"}`,
	`{type: "enum"}`, `{type: "mixed"}`, `{type: "any"}`, `{serializeFormat: ""}`, `{minItems: 5}`, `{type: "array"}`, `{type: "object"}`,
}

// refType picks a type that may be referenced from here ("" if none).
func (g *gen) refType(objectOnly bool) string {
	var cand []string
	for i := g.minRef; i < len(g.types); i++ {
		if objectOnly && !g.objTypes[g.types[i]] {
			continue
		}
		cand = append(cand, g.types[i])
	}
	if len(cand) == 0 {
		return ""
	}
	return cand[g.r.n(len(cand))]
}

// schemaBody renders a JSight object schema as lines.
func (g *gen) schemaBody(depth int, allowRefs bool) []string {
	r := g.r
	n := 1 + r.n(4)
	lines := []string{"{"}
	if allowRefs && depth == 0 && r.chance(150) {
		if t := g.refType(true); t != "" {
			lines[0] = fmt.Sprintf("{ // {allOf: %q}", "@"+t)
		}
	}
	for i := 0; i < n; i++ {
		g.keyN++
		key := fmt.Sprintf("f%d_%d", depth, g.keyN)
		comma := ","
		if i == n-1 {
			comma = ""
		}
		switch {
		case allowRefs && g.refType(false) != "" && r.chance(200):
			t := g.refType(false)
			if r.chance(300) {
				lines = append(lines, fmt.Sprintf("  %q: [@%s]%s", key, t, comma))
			} else {
				lines = append(lines, fmt.Sprintf("  %q: @%s%s", key, t, comma))
			}
		case len(g.enums) > 0 && (g.minRef == 0 || g.cfg.EnumsInTypes) && r.chance(150):
			e := g.enums[r.n(len(g.enums))]
			lines = append(lines, fmt.Sprintf("  %q: \"A%s\"%s // {enum: @%s}", key, e, comma, e))
		case depth < 2+g.cfg.Deep && r.chance(150):
			sub := g.schemaBody(depth+1, allowRefs)
			lines = append(lines, fmt.Sprintf("  %q: %s", key, sub[0]))
			for _, l := range sub[1 : len(sub)-1] {
				lines = append(lines, "  "+l)
			}
			lines = append(lines, "  "+sub[len(sub)-1]+comma)
		case r.chance(120):
			lines = append(lines, fmt.Sprintf("  %q: [1, 2]%s", key, comma))
		default:
			ex := scalarExamples[r.n(len(scalarExamples))]
			rules := scalarRules[ex]
			rule := rules[r.n(len(rules))]
			if g.cfg.RuleFuzz && r.chance(400) {
				rule = fuzzRules[r.n(len(fuzzRules))]
			}
			l := fmt.Sprintf("  %q: %s%s", key, ex, comma)
			if rule != "" {
				l += " // " + rule
				if r.chance(300) {
					l += " - note " + key
				}
			} else if r.chance(200) {
				l += " // note " + key
			}
			lines = append(lines, l)
		}
	}
	lines = append(lines, "}")
	return lines
}

func (g *gen) responseBodyNode(code string) *Node {
	r := g.r
	n := &Node{KW: code}
	switch {
	case r.chance(250):
		n.Params = "any"
	case r.chance(150):
		n.Params = "empty"
	case len(g.types) > 0 && r.chance(400):
		t := g.types[r.n(len(g.types))]
		if r.chance(300) {
			n.Params = "[@" + t + "]"
		} else {
			n.Params = "@" + t
		}
		if r.chance(300) {
			n.Ann = "resp " + code
		}
	case r.chance(200):
		n.Kids = []*Node{
			{KW: "Headers", Body: []string{"{", `  "X-Req": "abc"`, "}"}},
			{KW: "Body", Body: g.schemaBody(0, true)},
		}
	default:
		n.Body = g.schemaBody(0, true)
	}
	return n
}

func (g *gen) method(kw, path string) *Node {
	r := g.r
	m := &Node{KW: kw, Params: path}
	if r.chance(500) {
		m.Ann = "do " + strings.ToLower(kw)
	}
	if r.chance(300) {
		m.Kids = append(m.Kids, &Node{KW: "Description", Body: []string{"Some *text* here.", "", "Second paragraph."}})
	}
	if len(g.tags) > 0 && r.chance(300) {
		m.Kids = append(m.Kids, &Node{KW: "Tags", Params: "@" + g.tags[r.n(len(g.tags))]})
	}
	if r.chance(250) {
		m.Kids = append(m.Kids, &Node{KW: "Query", Params: `"a=1&b=x"`, Body: []string{"{", `  "a": 1,`, `  "b": "x" // {optional: true}`, "}"}})
	}
	if kw != "GET" && kw != "DELETE" && r.chance(600) {
		req := &Node{KW: "Request"}
		switch {
		case len(g.types) > 0 && r.chance(300):
			req.Params = "@" + g.types[r.n(len(g.types))]
		case r.chance(300):
			req.Kids = []*Node{
				{KW: "Headers", Body: []string{"{", `  "Content-Type": "application/json" // {const: true}`, "}"}},
				{KW: "Body", Body: g.schemaBody(0, true)},
			}
		default:
			req.Body = g.schemaBody(0, true)
		}
		m.Kids = append(m.Kids, req)
	}
	codes := []string{"200", "201", "204", "400", "404", "500"}
	used := map[string]bool{}
	for k := r.n(3); k >= 0; k-- {
		c := codes[r.n(len(codes))]
		if used[c] {
			continue
		}
		used[c] = true
		m.Kids = append(m.Kids, g.responseBodyNode(c))
	}
	if len(g.macros) > 0 && r.chance(350) {
		m.Kids = append(m.Kids, &Node{KW: "PASTE", Params: "@" + g.macros[r.n(len(g.macros))]})
	} else if r.chance(300) {
		// the standard error block: identical in many methods (so the same include file can be used twice)
		m.Kids = append(m.Kids, &Node{KW: "401", Params: "any"}, &Node{KW: "403", Params: "any"})
	}
	if r.chance(150) && len(m.Kids) > 0 {
		m.Explicit = true
	}
	return m
}

// Generate builds one document.
func generateDoc(r *rng, cfg genCfg) *Doc {
	g := &gen{r: r, cfg: cfg, objTypes: map[string]bool{}}
	d := &Doc{}
	d.Top = append(d.Top, &Node{KW: "JSIGHT", Params: "0.3"})
	for i := 0; i < cfg.Types; i++ {
		g.types = append(g.types, g.ident("t", i))
	}
	for i := 0; i < cfg.Enums; i++ {
		g.enums = append(g.enums, g.ident("e", i))
	}
	for i := 0; i < cfg.Tags; i++ {
		g.tags = append(g.tags, g.ident("tag", i))
	}
	var body []*Node
	if r.chance(500) {
		info := &Node{KW: "INFO"}
		info.Kids = append(info.Kids, &Node{KW: "Title", Params: `"Generated API"`})
		if r.chance(700) {
			info.Kids = append(info.Kids, &Node{KW: "Version", Params: "1." + fmt.Sprint(r.n(10))})
		}
		if r.chance(500) {
			info.Kids = append(info.Kids, &Node{KW: "Description", Body: []string{"Line one.", "Line two."}})
		}
		if r.chance(200) {
			info.Explicit = true
		}
		body = append(body, info)
	}
	for i := 0; i < cfg.Servers; i++ {
		s := &Node{KW: "SERVER", Params: "@" + g.ident("srv", i)}
		if r.chance(400) {
			s.Ann = "server " + fmt.Sprint(i)
		}
		s.Kids = []*Node{{KW: "BaseUrl", Params: fmt.Sprintf(`"https://s%d.example.com/api"`, i)}}
		body = append(body, s)
	}
	for i, t := range g.tags {
		n := &Node{KW: "TAG", Params: "@" + t}
		if r.chance(500) {
			n.Ann = "tag " + fmt.Sprint(i)
		}
		if r.chance(400) {
			n.Kids = []*Node{{KW: "Description", Body: []string{"About " + t + "."}}}
		}
		body = append(body, n)
	}
	// macros (response blocks)
	for i := 0; i < cfg.Macros; i++ {
		name := g.ident("m", i)
		m := &Node{KW: "MACRO", Params: "@" + name, Explicit: true}
		m.Kids = append(m.Kids, &Node{KW: "409", Params: "any"}, &Node{KW: fmt.Sprint(410 + i), Params: "any"})
		if i > 0 && r.chance(400) {
			m.Kids = append(m.Kids, &Node{KW: "PASTE", Params: "@" + g.ident("m", i-1)})
		}
		g.macros = append(g.macros, name)
		body = append(body, m)
	}
	// planted faults for C03-style documents
	for i := 0; i < cfg.RecursiveMacros; i++ {
		name := g.ident("rec", i)
		body = append(body, &Node{KW: "MACRO", Params: "@" + name, Explicit: true,
			Kids: []*Node{{KW: "418", Params: "any"}, {KW: "PASTE", Params: "@" + name}}})
	}
	if cfg.MutualMacros > 0 {
		for i := 0; i < cfg.MutualMacros; i++ {
			body = append(body, &Node{KW: "MACRO", Params: "@" + g.ident("mut", i), Explicit: true,
				Kids: []*Node{{KW: fmt.Sprint(420 + i), Params: "any"}, {KW: "PASTE", Params: "@" + g.ident("mut", (i+1)%cfg.MutualMacros)}}})
		}
		body = append(body, &Node{KW: "GET", Params: "/mutual", Kids: []*Node{{KW: "200", Params: "any"}, {KW: "PASTE", Params: "@mut0"}}})
	}
	var typeNodes []*Node
	for i := len(g.types) - 1; i >= 0; i-- {
		t := g.types[i]
		n := &Node{KW: "TYPE", Params: "@" + t}
		if r.chance(300) {
			n.Ann = "type " + fmt.Sprint(i)
		}
		if r.chance(120) {
			n.Params += " regex"
			n.Body = []string{"/ab+c[0-9]{2}/"}
		} else {
			g.minRef = i + 1
			n.Body = g.schemaBody(0, true)
			g.objTypes[t] = true
		}
		typeNodes = append(typeNodes, n)
	}
	g.minRef = 0
	// declaration order: referenced-first (as built) or referencing-first. The library rejects
	// "type references a later type" + any ENUM with a bogus diagnostic, so that order is rare
	// when the document has enums.
	flipP := 500
	if cfg.Enums > 0 || cfg.BadEnums > 0 {
		flipP = 100
	}
	if r.chance(flipP) {
		for i, j := 0, len(typeNodes)-1; i < j; i, j = i+1, j-1 {
			typeNodes[i], typeNodes[j] = typeNodes[j], typeNodes[i]
		}
	}
	body = append(body, typeNodes...)
	for i := 0; i < cfg.AliasTypes && len(g.types) > 0; i++ {
		target := g.types[r.n(len(g.types))]
		if i > 0 && r.chance(500) {
			target = g.ident("alias", i-1)
		}
		body = append(body, &Node{KW: "TYPE", Params: "@" + g.ident("alias", i), Body: []string{"@" + target}})
	}
	for i := 0; i < cfg.AliasTypes && len(g.types) > 0; i++ {
		g.types = append(g.types, g.ident("alias", i)) // may be referenced (also from Path bodies)
	}
	for i := 0; i < cfg.BadTypes; i++ {
		body = append(body, &Node{KW: "TYPE", Params: "@" + g.ident("bad", i),
			Body: []string{"{", fmt.Sprintf(`  "x": @missing%d`, i), "}"}})
	}
	for i, e := range g.enums {
		n := &Node{KW: "ENUM", Params: "@" + e, Body: []string{"[", fmt.Sprintf(`  "A%s",`, e), fmt.Sprintf(`  "B%d"`, i), "]"}}
		if r.chance(300) {
			n.Ann = "enum " + fmt.Sprint(i)
		}
		body = append(body, n)
	}
	if cfg.LateFaults > 0 {
		kinds := []func(i int) *Node{
			func(i int) *Node { // request without body
				return &Node{KW: "POST", Params: fmt.Sprintf("/late%d", i), Kids: []*Node{
					{KW: "Request", Kids: []*Node{{KW: "Headers", Body: []string{"{", `  "H": "v"`, "}"}}}}, {KW: "200", Params: "any"}}}
			},
			func(i int) *Node { // response without body
				return &Node{KW: "GET", Params: fmt.Sprintf("/late%d", i), Kids: []*Node{
					{KW: "200", Kids: []*Node{{KW: "Headers", Body: []string{"{", `  "H": "v"`, "}"}}}}}}
			},
			func(i int) *Node { // headers that are not an object (a reference to an array type)
				return &Node{KW: "PUT", Params: fmt.Sprintf("/late%d", i), Kids: []*Node{
					{KW: "200", Kids: []*Node{{KW: "Headers", Body: []string{"@latearr"}}, {KW: "Body", Params: "any"}}}}}
			},
		}
		body = append(body, &Node{KW: "TYPE", Params: "@latearr", Body: []string{"[1, 2]"}})
		start := r.n(len(kinds))
		for i := 0; i < cfg.LateFaults; i++ {
			body = append(body, kinds[(start+i)%len(kinds)](i))
		}
	}
	if cfg.PathTypeRefs > 0 {
		body = append(body, &Node{KW: "TYPE", Params: "@ptrobj", Body: []string{"{", `  "a": 1`, "}"}})
		for i := 0; i < cfg.PathTypeRefs; i++ {
			body = append(body, &Node{KW: "URL", Params: fmt.Sprintf("/ptr%d/{pid%d}", i, i), Kids: []*Node{
				{KW: "Path", Body: []string{"{", fmt.Sprintf(`  "pid%d": @ptrobj`, i), "}"}},
				{KW: "GET", Kids: []*Node{{KW: "200", Params: "any"}}},
			}})
		}
	}
	if cfg.EnumMismatch > 0 {
		vals := []string{"[", `  "ok1",`, `  "ok2"`, "]"}
		if cfg.EnumMismatch == 2 {
			vals = []string{"[", `  "ok1",`, `  "odd"`, "]"}
		}
		body = append(body, &Node{KW: "ENUM", Params: "@emm", Body: vals})
		body = append(body, &Node{KW: "GET", Params: "/enummismatch", Kids: []*Node{{KW: "200", Body: []string{"{", `  "k": "odd" // {enum: @emm}`, "}"}}}})
	}
	for i := 0; i < cfg.BadEnums; i++ {
		body = append(body, &Node{KW: "ENUM", Params: "@" + g.ident("be", i), Body: []string{"[", `  "x",`, `  "x"`, "]"}})
	}
	methods := []string{"GET", "POST", "PUT", "PATCH", "DELETE"}
	if cfg.NoHTTP {
		cfg.URLs, cfg.RPC, cfg.TwinURLs = 0, false, false
	}
	for i := 0; i < cfg.URLs; i++ {
		path := fmt.Sprintf("/res%d", i)
		withID := r.chance(400) || cfg.PathRuleFuzz
		if withID {
			path += "/{id}"
		}
		if r.chance(250) {
			// a method directly at the root
			body = append(body, g.method(methods[r.n(len(methods))], path+"/direct"))
			continue
		}
		u := &Node{KW: "URL", Params: path}
		if withID && r.chance(600) {
			pb := []string{"{", `  "id": 1`, "}"}
			if (cfg.RuleFuzz && r.chance(500)) || cfg.PathRuleFuzz {
				pb = []string{"{", `  "id": 1 // ` + fuzzRules[r.n(len(fuzzRules))], "}"}
			}
			if cfg.PathBodyFuzz {
				pick := r.n(9)
				if cfg.AliasTypes > 0 && len(g.types) > 0 && r.chance(400) {
					// a Path described by a type that is only another name for a type
					pb = []string{"@" + g.ident("alias", r.n(cfg.AliasTypes))}
					pick = -1
				}
				switch pick {
				case 7:
					pb = []string{"{", `  "id": 1,`, `  "x": {"y": 1},`, `  "z": [1, 2],`, `  "w": {"v": {"u": true}}`, "}"}
				case 8:
					pb = []string{"{", `  "id": {"a": 1},`, `  "x": [[1]]`, "}"}
				case 0:
					if t := g.refType(false); t != "" {
						pb = []string{"@" + t}
					}
				case 1:
					if len(g.types) > 0 {
						pb = []string{"@" + g.types[r.n(len(g.types))]} // also regex types
					}
				case 2:
					pb = []string{"[1, 2]"}
				case 3:
					pb = []string{"1"}
				case 4:
					if len(g.types) > 1 {
						pb = []string{"@" + g.types[0] + " | @" + g.types[1]}
					}
				case 5:
					pb = []string{"{", `  "id": 1, // {nullable: true}`, `  "x": {"y": 1}`, "}"}
				case 6:
					pb = []string{"{}"}
				}
			}
			u.Kids = append(u.Kids, &Node{KW: "Path", Body: pb})
		}
		if len(g.tags) > 0 && r.chance(300) {
			u.Kids = append(u.Kids, &Node{KW: "Tags", Params: "@" + g.tags[r.n(len(g.tags))]})
		}
		used := map[string]bool{}
		for k := r.n(3); k >= 0; k-- {
			m := methods[r.n(len(methods))]
			if used[m] {
				continue
			}
			used[m] = true
			u.Kids = append(u.Kids, g.method(m, ""))
		}
		if r.chance(200) {
			u.Explicit = true
		}
		body = append(body, u)
	}
	for i := 0; i < cfg.UnusedPathParams; i++ {
		// one URL whose Path body declares properties that the path does not have
		if i == 0 {
			pb := []string{"{", `  "id": 1,`}
			for k := 0; k < cfg.UnusedPathParams+1; k++ {
				c := ","
				if k == cfg.UnusedPathParams {
					c = ""
				}
				pb = append(pb, fmt.Sprintf(`  "unused%c": 1%s`, 'a'+k, c))
			}
			pb = append(pb, "}")
			body = append(body, &Node{KW: "URL", Params: "/unused/{id}", Kids: []*Node{{KW: "Path", Body: pb}, {KW: "GET", Kids: []*Node{{KW: "200", Params: "any"}}}}})
		}
	}
	if cfg.RecursiveOr {
		// OR types that lead back to themselves, used where an object is expected
		body = append(body,
			&Node{KW: "TYPE", Params: "@roLeaf", Body: []string{"{", `  "v": 1`, "}"}},
			&Node{KW: "TYPE", Params: "@ro0", Body: []string{"@ro1 | @roLeaf"}},
			&Node{KW: "TYPE", Params: "@ro1", Body: []string{"@ro0 | @roLeaf"}},
			&Node{KW: "TYPE", Params: "@roSelf", Body: []string{"@roSelf | @roLeaf"}})
		t := []string{"@ro0", "@roSelf", "@ro1"}[r.n(3)]
		var kid *Node
		switch r.n(4) {
		case 0:
			kid = &Node{KW: "Request", Kids: []*Node{{KW: "Headers", Body: []string{t}}, {KW: "Body", Body: []string{t}}}}
		case 1:
			kid = &Node{KW: "Query", Params: `"v=1"`, Body: []string{t}}
		case 2:
			kid = &Node{KW: "Request", Body: []string{t}}
		default:
			kid = &Node{KW: "200", Kids: []*Node{{KW: "Headers", Body: []string{t}}, {KW: "Body", Body: []string{t}}}}
		}
		body = append(body, &Node{KW: "POST", Params: "/recor", Kids: []*Node{kid, {KW: "204", Params: "empty"}}})
	}
	if cfg.RPC {
		rpcPath := "/rpc"
		switch r.n(10) {
		case 0, 1:
			rpcPath = "/res0/{id}/rpc" // below a resource whose Path directive describes {id}
		case 2:
			rpcPath = "/res0/{id}"
		case 3:
			rpcPath = "/{lang}/rpc"
		}
		u := &Node{KW: "URL", Params: rpcPath}
		u.Kids = append(u.Kids, &Node{KW: "Protocol", Params: "json-rpc-2.0"})
		for k := 0; k <= r.n(3); k++ {
			m := &Node{KW: "Method", Params: g.ident("call", k)}
			if r.chance(400) {
				m.Ann = "rpc " + fmt.Sprint(k)
			}
			if r.chance(700) {
				m.Kids = append(m.Kids, &Node{KW: "Params", Body: g.schemaBody(0, true)})
			}
			if r.chance(700) {
				m.Kids = append(m.Kids, &Node{KW: "Result", Body: []string{"1 // {min: 0}"}})
			}
			u.Kids = append(u.Kids, m)
		}
		body = append(body, u)
	}
	for i := 0; i < cfg.UnusedMacros; i++ {
		name := g.ident("um", i)
		m := &Node{KW: "MACRO", Params: "@" + name, Explicit: true}
		switch r.n(6) {
		case 0:
			m.Kids = []*Node{{KW: "Query", Params: `"q=1"`, Body: []string{"{", `  "q": 1`, "}"}}}
		case 1:
			m.Kids = []*Node{{KW: "Headers", Body: []string{"{", `  "X-Um": "v"`, "}"}}}
		case 2:
			m.Kids = []*Node{{KW: "Description", Body: []string{"Unused macro text."}}}
		case 3:
			m.Kids = []*Node{{KW: "TYPE", Params: "@" + g.ident("umt", i), Body: []string{"{", `  "u": 1`, "}"}}}
		case 4:
			m.Kids = []*Node{{KW: "SERVER", Params: "@" + g.ident("umsrv", i), Kids: []*Node{{KW: "BaseUrl", Params: `"https://um.example.com"`}}}}
		case 5:
			m.Kids = []*Node{{KW: "Request", Kids: []*Node{{KW: "Body", Body: []string{"{", `  "rb": 1`, "}"}}}}, {KW: "202", Params: "any"}}
		}
		body = append(body, m)
	}
	if cfg.MacroGraph > 0 {
		n := cfg.MacroGraph
		for i := 0; i < n; i++ {
			m := &Node{KW: "MACRO", Params: "@" + g.ident("gm", i), Explicit: true}
			m.Kids = append(m.Kids, &Node{KW: fmt.Sprint(430 + i), Params: "any"})
			for e := r.n(3); e > 0; e-- {
				m.Kids = append(m.Kids, &Node{KW: "PASTE", Params: "@" + g.ident("gm", r.n(n))})
			}
			body = append(body, m)
		}
		body = append(body, &Node{KW: "GET", Params: "/macrograph", Kids: []*Node{{KW: "200", Params: "any"}, {KW: "PASTE", Params: "@" + g.ident("gm", r.n(n))}}})
	}
	if cfg.Abyss > 0 {
		open, close := "[", "]"
		if cfg.Abyss%2 == 1 {
			open, close = `{"a": `, "}"
		}
		body = append(body, &Node{KW: "TYPE", Params: "@abyss", Body: []string{strings.Repeat(open, cfg.Abyss) + "1" + strings.Repeat(close, cfg.Abyss)}})
	}
	if cfg.MacroLadder > 0 {
		n := cfg.MacroLadder
		for i := 0; i < n; i++ {
			m := &Node{KW: "MACRO", Params: "@" + g.ident("lad", i), Explicit: true}
			if i+1 < n {
				m.Kids = []*Node{{KW: "PASTE", Params: "@" + g.ident("lad", i+1)}, {KW: "PASTE", Params: "@" + g.ident("lad", i+1)}}
			} else {
				m.Kids = []*Node{{KW: "440", Params: "any"}}
			}
			body = append(body, m)
		}
		body = append(body, &Node{KW: "GET", Params: "/ladder", Kids: []*Node{{KW: "200", Params: "any"}, {KW: "PASTE", Params: "@" + g.ident("lad", map[bool]int{false: n - 1, true: 0}[cfg.LadderTop])}}})
	}
	if cfg.DupPathParams > 0 {
		path := "/dup"
		for k := 0; k < cfg.DupPathParams; k++ {
			path += fmt.Sprintf("/{p%c}", 'a'+k)
		}
		path += "/again"
		for k := 0; k < cfg.DupPathParams; k++ {
			path += fmt.Sprintf("/{p%c}", 'a'+k)
		}
		body = append(body, &Node{KW: "GET", Params: path, Kids: []*Node{{KW: "200", Params: "any"}}})
	}
	if cfg.PathRedescribe > 0 {
		path, pb := "/redesc", []string{"{"}
		for k := 0; k < cfg.PathRedescribe; k++ {
			path += fmt.Sprintf("/{q%c}", 'a'+k)
			c := ","
			if k == cfg.PathRedescribe-1 {
				c = ""
			}
			pb = append(pb, fmt.Sprintf(`  "q%c": 1%s`, 'a'+k, c))
		}
		pb = append(pb, "}")
		body = append(body, &Node{KW: "URL", Params: path, Kids: []*Node{
			{KW: "Path", Body: pb},
			{KW: "GET", Kids: []*Node{{KW: "Path", Body: pb}, {KW: "200", Params: "any"}}},
		}})
	}
	if cfg.TwinURLs && !cfg.NoHTTP {
		mk := func() []*Node {
			return []*Node{
				{KW: "GET", Ann: "twin get", Kids: []*Node{
					{KW: "Path", Body: []string{"{", `  "tid": 1 // {min: 1}`, "}"}},
					{KW: "200", Params: "any"},
					{KW: "404", Params: "any"},
				}},
				{KW: "DELETE", Kids: []*Node{{KW: "204", Params: "empty"}}},
			}
		}
		a := &Node{KW: "URL", Params: "/twina/{tid}", Kids: mk()}
		b := &Node{KW: "URL", Params: "/twinb/{tid}", Kids: mk()}
		body = append(body, a, b)
		d.twins = []*Node{a, b}
	}
	if cfg.MessyAnn {
		var style func(nn []*Node)
		style = func(nn []*Node) {
			for _, n := range nn {
				if n.Ann != "" && n.KW != "JSIGHT" {
					n.AnnStyle = r.n(3)
				}
				style(n.Kids)
			}
		}
		style(body)
	}
	// shuffle the top-level declarations a little (declaration order must not matter for validity)
	if r.chance(500) {
		for i := len(body) - 1; i > 0; i-- {
			j := r.n(i + 1)
			body[i], body[j] = body[j], body[i]
		}
	}
	if cfg.Huge {
		// right after JSIGHT: a comment that follows a Description would be part of its text
		lines := make([]string, 0, 12002)
		for i := 0; i < 12000; i++ {
			lines = append(lines, fmt.Sprintf("padding line %05d ........................................................................", i))
		}
		lines = append(lines, "###")
		body = append([]*Node{{KW: "###", Body: lines}}, body...)
	}
	d.Top = append(d.Top, body...)
	d.LineBreak = cfg.LineBreak
	if cfg.MutualTypesMissing {
		long := []string{"{"}
		for k := 0; k < 25+r.n(30); k++ {
			long = append(long, fmt.Sprintf(`  "filler%d": "some text to make this body long enough %d",`, k, k))
		}
		long = append(long, `  "owner": @mtperson,`, `  "vet": @mtdoctor`, "}")
		d.Top = append(d.Top, &Node{KW: "TYPE", Params: "@mtpet", Body: long})
		d.Top = append(d.Top, &Node{KW: "TYPE", Params: "@mtperson", Body: []string{"{", `  "pet": @mtpet // {optional: true}`, "}"}})
	}
	return d
}

// ------------------------------------------------------------ rendering

func (d *Doc) Render() string {
	d.lines = d.lines[:0]
	for _, n := range d.Top {
		d.renderNode(n, 0)
		if n.KW != "JSIGHT" || true {
			d.lines = append(d.lines, "")
		}
	}
	nl := "\n"
	if d.LineBreak != "" {
		nl = d.LineBreak
	}
	return strings.Join(d.lines, nl) + nl
}

func (d *Doc) renderNode(n *Node, ind int) {
	pad := strings.Repeat("  ", ind)
	n.from = len(d.lines)
	l := pad + n.KW
	if n.Params != "" {
		l += " " + n.Params
	}
	switch {
	case n.Ann == "":
		d.lines = append(d.lines, l)
	case n.AnnStyle == 1:
		d.lines = append(d.lines, l+" //   "+strings.ReplaceAll(n.Ann, " ", "\t  ")+"  ")
	case n.AnnStyle == 2:
		d.lines = append(d.lines, l+" /* "+n.Ann, pad+"      continued   here", pad+"   */")
	default:
		d.lines = append(d.lines, l+" // "+n.Ann)
	}
	for _, b := range n.Body {
		if b == "" {
			d.lines = append(d.lines, "")
		} else {
			d.lines = append(d.lines, pad+"  "+b)
		}
	}
	if n.Explicit {
		d.lines = append(d.lines, pad+"(")
	}
	for _, k := range n.Kids {
		d.renderNode(k, ind+1)
	}
	if n.Explicit {
		d.lines = append(d.lines, pad+")")
	}
	n.to = len(d.lines)
}

// ------------------------------------------------------------ cutting into files

// cutRegion is a run of complete sibling subtrees [from,to) moved to a file.
type cutRegion struct {
	from, to int
	file     string // path relative to the directory of the including file
	inner    []*cutRegion
}

// legalRuns lists every run of complete siblings that the property allows to be
// moved: runs of top-level directives (never JSIGHT itself) and runs of
// children of an implicitly nested directive.
func toggleCase(name string) string {
	b := []byte(name)
	for i, c := range b {
		switch {
		case c >= 'a' && c <= 'z':
			b[i] = c - 32
		case c >= 'A' && c <= 'Z':
			b[i] = c + 32
		}
		if b[i] != c {
			break // one letter is enough
		}
	}
	return string(b)
}

func (d *Doc) legalRuns() [][2]int {
	var out [][2]int
	addRuns := func(kids []*Node, skipFirst int) {
		for i := skipFirst; i < len(kids); i++ {
			for j := i + 1; j <= len(kids); j++ {
				out = append(out, [2]int{kids[i].from, kids[j-1].to})
			}
		}
	}
	addRuns(d.Top, 1)
	var walk func(n *Node)
	walk = func(n *Node) {
		if len(n.Kids) > 0 && !n.Explicit {
			addRuns(n.Kids, 0)
		}
		for _, k := range n.Kids {
			walk(k)
		}
	}
	for _, n := range d.Top {
		walk(n)
	}
	return out
}

// cutProject renders the document and cuts it into files. It returns the
// un-cut single-file project and the cut multi-file project.
// genStats counts what the cutter produced in this process (evidence).
var genStats struct{ EmptyIncludes, Chains, MaxChain, Noise, NoFinalBreak int }

func cutProject(d *Doc, r *rng, baseDir string, maxDepth int) (single, multi Project, ncuts int) {
	text := d.Render()
	runs := d.legalRuns()
	if len(d.twins) > 0 && r.chance(600) {
		// put the children run of the first twin in front: cutText takes runs[0] first when asked to
		k := 1 + r.n(len(d.twins[0].Kids))
		pref := [2]int{d.twins[0].Kids[0].from, d.twins[0].Kids[k-1].to}
		runs = append([][2]int{pref}, runs...)
		return cutTextPref(text, runs, r, baseDir, maxDepth, true)
	}
	return cutText(text, runs, r, baseDir, maxDepth)
}

// cutText cuts a text into files at the given legal runs (line ranges).
func cutText(text string, runs [][2]int, r *rng, baseDir string, maxDepth int) (single, multi Project, ncuts int) {
	return cutTextPref(text, runs, r, baseDir, maxDepth, false)
}

// cutTextPref is cutText; with first set, runs[0] is always among the chosen runs and its
// identical twins elsewhere in the text are cut into the same file.
func cutTextPref(text string, runs [][2]int, r *rng, baseDir string, maxDepth int, first bool) (single, multi Project, ncuts int) {
	nl := "\n"
	if strings.Contains(text, "\r\n") {
		nl = "\r\n"
	} else if strings.Contains(text, "\r") && !strings.Contains(text, "\n") {
		nl = "\r"
	}
	lines := strings.Split(strings.TrimSuffix(text, nl), nl)
	endsWithNL := strings.HasSuffix(text, nl)
	root := filepath.Join(baseDir, "main.jst")
	single = Project{Root: root, Cwd: "/sim/cwd"}
	single.set(root, []byte(text))
	// choose a laminar (nested or disjoint) family of runs
	var chosen [][2]int
	if first && len(runs) > 0 {
		chosen = append(chosen, runs[0])
	}
	want := 1 + r.n(5)
	for tries := 0; tries < 40 && len(chosen) < want && len(runs) > 0; tries++ {
		c := runs[r.n(len(runs))]
		ok := true
		for _, o := range chosen {
			disjoint := c[1] <= o[0] || o[1] <= c[0]
			nested := (c[0] >= o[0] && c[1] <= o[1]) || (o[0] >= c[0] && o[1] <= c[1])
			if !(disjoint || nested) || c == o {
				ok = false
			}
		}
		if ok {
			chosen = append(chosen, c)
		}
	}
	// build the tree of regions
	regs := make([]*cutRegion, len(chosen))
	for i, c := range chosen {
		regs[i] = &cutRegion{from: c[0], to: c[1]}
	}
	depthOf := func(x *cutRegion) int {
		n := 0
		for _, o := range regs {
			if o != x && o.from <= x.from && x.to <= o.to {
				n++
			}
		}
		return n
	}
	var tops []*cutRegion
	for _, x := range regs {
		if depthOf(x) >= maxDepth {
			continue
		}
		// parent = smallest enclosing
		var parent *cutRegion
		for _, o := range regs {
			if o != x && o.from <= x.from && x.to <= o.to && depthOf(o) < maxDepth {
				if parent == nil || (o.to-o.from) < (parent.to-parent.from) {
					parent = o
				}
			}
		}
		if parent == nil {
			tops = append(tops, x)
		} else {
			parent.inner = append(parent.inner, x)
		}
	}
	// identical runs elsewhere in the text: cut them too, so that one file is included several times
	if len(chosen) > 0 && (first || r.chance(600)) {
		textOf := func(c [2]int) string { return strings.Join(lines[c[0]:c[1]], "\n") }
		base := chosen[r.n(len(chosen))]
		if first {
			base = chosen[0]
		}
		bt := textOf(base)
		for _, c := range runs {
			if c == base || c[1]-c[0] != base[1]-base[0] || textOf(c) != bt {
				continue
			}
			ok := true
			for _, o := range chosen {
				disjoint := c[1] <= o[0] || o[1] <= c[0]
				nested := (c[0] >= o[0] && c[1] <= o[1]) || (o[0] >= c[0] && o[1] <= c[1])
				if !(disjoint || nested) || c == o {
					ok = false
				}
			}
			if ok {
				chosen = append(chosen, c)
				regs = append(regs, &cutRegion{from: c[0], to: c[1]})
			}
		}
		// rebuild the region tree with the additional regions
		tops = tops[:0]
		for _, x := range regs {
			x.inner = nil
		}
		for _, x := range regs {
			if depthOf(x) >= maxDepth {
				continue
			}
			var parent *cutRegion
			for _, o := range regs {
				if o != x && o.from <= x.from && x.to <= o.to && depthOf(o) < maxDepth {
					if parent == nil || (o.to-o.from) < (parent.to-parent.from) {
						parent = o
					}
				}
			}
			if parent == nil {
				tops = append(tops, x)
			} else {
				parent.inner = append(parent.inner, x)
			}
		}
	}
	multi = Project{Root: root, Cwd: "/sim/cwd"}
	byContent := map[string]string{} // dir+"\x00"+content -> file name (reuse: same file included several times)
	perDir := map[string]int{}       // names are unique per directory only: the same spelling occurs in several directories
	var emitNamed func(from, to int, inner []*cutRegion, dir string, self string) string
	var emit func(from, to int, inner []*cutRegion, dir string) string
	emit = func(from, to int, inner []*cutRegion, dir string) string {
		return emitNamed(from, to, inner, dir, "main.jst")
	}
	emitNamed = func(from, to int, inner []*cutRegion, dir string, self string) string {
		// sort inner by from
		for i := 1; i < len(inner); i++ {
			for j := i; j > 0 && inner[j].from < inner[j-1].from; j-- {
				inner[j], inner[j-1] = inner[j-1], inner[j]
			}
		}
		var sb strings.Builder
		at := from
		for _, c := range inner {
			for ; at < c.from; at++ {
				sb.WriteString(lines[at] + nl)
			}
			// place the file: same directory or a sub-directory
			// the sub-directory is a function of the moved text, so that identical runs land in one file
			sub := ""
			switch hash64(strings.Join(lines[c.from:c.to], "\n")) % 4 {
			case 0:
				sub = "inc"
			case 1:
				sub = fmt.Sprintf("d%d/x", hash64(lines[c.from])%2)
			}
			cdir := filepath.Join(dir, sub)
			// a file in the directory of its includer may get the includer's name in the other letter
			// case (Part3.jst includes part3.jst): two different files on a case-sensitive disk
			srcKey := strings.Join(lines[c.from:c.to], "\n")
			prefix := []string{"part", "part", "part", "Part", "PART", "..part", "p.art", "...", "part",
				"p\u00e4rt", "\u0447\u0430\u0441\u0442\u044c", "p+art", "p%20art", "p~art", "p@art", "p-a_r,t", "part" + strings.Repeat("x", 150), "part"}[hash64(srcKey)%18]
			if sub != "" && strings.HasPrefix(prefix, "..") {
				// after a directory the library's validator refuses "/.." even inside a longer name;
				// that conservatism is not what this check is about
				prefix = "part"
			}
			cand := fmt.Sprintf("%s%d.jst", prefix, perDir[cdir]+1)
			if prefix == "..." {
				cand = fmt.Sprintf("...%d", perDir[cdir]+1)
			}
			if sub == "" && self != "" && hash64(self+srcKey)%3 == 0 {
				if t := toggleCase(self); t != self && t != "main.jst" {
					if _, used := multi.Files[filepath.Join(cdir, t)]; !used {
						cand = t
					}
				}
			}
			content := emitNamed(c.from, c.to, c.inner, cdir, cand)
			// how the file begins and ends is not part of the run: no final line break, blank lines
			// or a remark around it (a function of the text, so that identical runs stay one file)
			switch hash64("edge"+content) % 12 {
			case 0, 1, 2:
				content = strings.TrimSuffix(content, nl)
				genStats.NoFinalBreak++
			case 3:
				content += nl
			case 4:
				content = nl + content
			case 5:
				content = "# moved part" + nl + content
			}
			key := cdir + "\x00" + content
			name, ok := byContent[key]
			if !ok {
				if _, used := multi.Files[filepath.Join(cdir, cand)]; used {
					cand = fmt.Sprintf("part%d_%d.jst", perDir[cdir]+1, len(multi.Files))
				}
				perDir[cdir]++
				name = cand
				byContent[key] = name
				multi.set(filepath.Join(cdir, name), []byte(content))
			}
			rel := name
			if sub != "" {
				rel = sub + "/" + name
			}
			indent := lines[c.from][:len(lines[c.from])-len(strings.TrimLeft(lines[c.from], " "))]
			if r.chance(100) {
				// the empty run: a file that holds no directive at all, included where an INCLUDE is legal
				body := []string{"", nl, "# nothing here" + nl, "   " + nl + nl, "# a" + nl + "# b"}[r.n(5)]
				ename := fmt.Sprintf("void%d.jst", len(multi.Files))
				multi.set(filepath.Join(dir, ename), []byte(body))
				sb.WriteString(indent + "INCLUDE " + ename + nl)
				genStats.EmptyIncludes++
			}
			if r.chance(80) {
				// a chain: the run that consists of this one INCLUDE is itself moved into a file, and
				// again, up to a depth that no hand-written project reaches
				depth := 2 + r.n(30)
				if r.chance(200) {
					depth = 40 + r.n(60)
				}
				id := len(multi.Files)
				next := rel
				for i := depth; i >= 1; i-- {
					cname := fmt.Sprintf("chain%d_%d.jst", id, i)
					multi.set(filepath.Join(dir, cname), []byte(indent+"INCLUDE "+next+nl))
					next = cname
				}
				rel = next
				genStats.Chains++
				if depth > genStats.MaxChain {
					genStats.MaxChain = depth
				}
			}
			// how the INCLUDE line itself is spelt is free: separators, blanks after the name, a remark
			sep := []string{" ", " ", " ", "  ", "\t", " \t "}[r.n(6)]
			tail := []string{"", "", "", "", "  ", "\t", " # moved"}[r.n(7)]
			sb.WriteString(indent + "INCLUDE" + sep + rel + tail + nl)
			ncuts++
			at = c.to
		}
		for ; at < to; at++ {
			sb.WriteString(lines[at] + nl)
		}
		return sb.String()
	}
	rootText := emit(0, len(lines), tops, baseDir)
	if !endsWithNL {
		rootText = strings.TrimSuffix(rootText, nl)
	}
	multi.set(root, []byte(rootText))
	return single, multi, ncuts
}

// lineNoise returns a copy of the project with a few harmless-looking edits of the kind an editor
// or a hurried author leaves behind: blanks and tabs after the last token of a line, a '#' remark
// after it, lines that hold only blanks, a missing final line break. Lines that close a body or a
// block are preferred. (Whether the result is still valid does not matter to C01.)
func lineNoise(p *Project, r *rng) Project {
	genStats.Noise++
	q := p.clone()
	files := sortedKeys(q.Files)
	if len(files) == 0 {
		return q
	}
	for k := 1 + r.n(5); k > 0; k-- {
		path := files[r.n(len(files))]
		txt := string(q.content(path))
		if txt == "" {
			continue
		}
		lines := strings.SplitAfter(txt, "\n")
		var closers []int
		for i, ln := range lines {
			t := strings.TrimRight(ln, "\r\n")
			if t != "" && strings.ContainsAny(t[len(t)-1:], "]})\"") {
				closers = append(closers, i)
			}
		}
		i := r.n(len(lines))
		if len(closers) > 0 && r.chance(600) {
			i = closers[r.n(len(closers))]
		}
		ln := lines[i]
		body, end := ln, ""
		switch {
		case strings.HasSuffix(ln, "\r\n"):
			body, end = ln[:len(ln)-2], "\r\n"
		case strings.HasSuffix(ln, "\n"):
			body, end = ln[:len(ln)-1], "\n"
		}
		switch r.n(12) {
		case 0:
			body += " "
		case 1:
			body += "\t"
		case 2:
			body += "   \t "
		case 3:
			body += " # trailing remark"
		case 4:
			body += "\t# x"
		case 5:
			body += end + "   "
		case 6:
			body += " "
			end = "" // and the line break is gone (matters on the last line; joins two lines elsewhere)
			if i != len(lines)-1 && i != len(lines)-2 {
				end = "\n"
			}
		case 7:
			body += " #"
		case 8, 9, 10, 11:
			// a stray byte somewhere in the line: NUL (twice as likely), DEL, a control byte, bytes that
			// are not UTF-8, a Unicode line separator
			stray := []string{"\x00", "\x00", "\x7f", "\x01", "\xff", "\xc3", "\xe2\x80\xa8", "\xef\xbb\xbf"}[r.n(8)]
			at := r.n(len(body) + 1)
			body = body[:at] + stray + body[at:]
		}
		lines[i] = body + end
		q.set(path, []byte(strings.Join(lines, "")))
	}
	if r.chance(250) {
		// the same stray byte at two or three places of one file: once inside a note or remark
		// (after "//" or "#"), once inside a free-text body (the lines after a Description keyword),
		// once anywhere - what the first one does to the scanner's bookkeeping meets the second one
		stray := []string{"\x00", "\x00", "\x00", "\x7f", "\x01", "\xff", "\xe2\x80\xa8"}[r.n(7)]
		path := files[r.n(len(files))]
		lines := strings.SplitAfter(string(q.content(path)), "\n")
		var notes, texts []int
		inText := false
		for i, ln := range lines {
			t := strings.TrimSpace(ln)
			switch {
			case strings.HasPrefix(t, "Description"):
				inText = true
			case inText && t != "" && !strings.HasPrefix(t, "(") && !strings.HasPrefix(t, ")"):
				texts = append(texts, i)
				if len(texts) > 0 && r.chance(300) {
					inText = false
				}
			}
			if strings.Contains(ln, "// ") || strings.HasPrefix(t, "#") {
				notes = append(notes, i)
			}
		}
		put := func(i int, after string) {
			ln := lines[i]
			at := r.n(len(strings.TrimRight(ln, "\r\n")) + 1)
			if after != "" {
				if k := strings.Index(ln, after); k >= 0 {
					at = k + len(after) + r.n(len(strings.TrimRight(ln[k+len(after):], "\r\n"))+1)
				}
			}
			lines[i] = ln[:at] + stray + ln[at:]
		}
		if len(notes) > 0 {
			put(notes[r.n(len(notes))], "//")
		}
		if len(texts) > 0 {
			put(texts[r.n(len(texts))], "")
		}
		if r.chance(500) && len(lines) > 0 {
			put(r.n(len(lines)), "")
		}
		q.set(path, []byte(strings.Join(lines, "")))
	}
	return q
}

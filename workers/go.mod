// Placeholder: keeps these sources out of module "verif". They are compiled
// inside the scratch copy of the library (package main in <scratch>/repo/zzverif).
module verif.local/workers-src

go 1.19

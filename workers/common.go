package main

import (
	"crypto/sha256"
	"encoding/base64"
	"encoding/hex"
	"encoding/json"
	"fmt"
	"os"
	"path/filepath"
	"runtime"
	"runtime/debug"
	"sort"
	"strings"

	"github.com/jsightapi/jsight-api-go-library/core"
	"github.com/jsightapi/jsight-api-go-library/directive"
	"github.com/jsightapi/jsight-api-go-library/jerr"
	"github.com/jsightapi/jsight-api-go-library/kit"
	schemafs "github.com/jsightapi/jsight-schema-go-library/fs"
	simrt "verif.local/simrt"
)

// ------------------------------------------------------------ case description

// Project is a set of files on the simulated disk and a root file.
type Project struct {
	Files   map[string]string `json:"files"` // absolute path -> base64 content
	Dirs    []string          `json:"dirs,omitempty"`
	Special []string          `json:"special,omitempty"` // files that report size 0 to stat although they have content (FIFO, /proc-like)
	Links   map[string]string `json:"links,omitempty"`   // symbolic links: link path -> target path (both absolute, inside the tree)
	Root    string            `json:"root"`              // path handed to the library (absolute, or relative to Cwd)
	Cwd     string            `json:"cwd,omitempty"`     // simulated working directory
	Name    string            `json:"name,omitempty"`
}

func (p *Project) content(path string) []byte {
	for hops := 0; hops < 8; hops++ {
		t, ok := p.Links[path]
		if !ok {
			break
		}
		path = t
	}
	b, _ := base64.StdEncoding.DecodeString(p.Files[path])
	return b
}

func (p *Project) set(path string, b []byte) {
	if p.Files == nil {
		p.Files = map[string]string{}
	}
	p.Files[path] = base64.StdEncoding.EncodeToString(b)
}

func (p *Project) clone() Project {
	q := *p
	q.Files = map[string]string{}
	for k, v := range p.Files {
		q.Files[k] = v
	}
	q.Dirs = append([]string(nil), p.Dirs...)
	q.Special = append([]string(nil), p.Special...)
	if p.Links != nil {
		q.Links = map[string]string{}
		for k, v := range p.Links {
			q.Links[k] = v
		}
	}
	return q
}

func (p *Project) totalBytes() int {
	n := 0
	for _, v := range p.Files {
		n += len(v) * 3 / 4
	}
	return n
}

func (p *Project) absRoot() string {
	if filepath.IsAbs(p.Root) {
		return filepath.Clean(p.Root)
	}
	return filepath.Join(p.cwd(), p.Root)
}

func (p *Project) cwd() string {
	if p.Cwd != "" {
		return p.Cwd
	}
	return "/sim/cwd"
}

// Opts are the library options and the entry point used.
type Opts struct {
	FixedSeed bool   `json:"fixed_seed,omitempty"`
	Banned    []int  `json:"banned,omitempty"`     // directive.Enumeration values
	Entry     string `json:"entry,omitempty"`      // "path" (kit.NewJapi) or "file" (kit.NewJApiFromFile); default path
	SplitBans bool   `json:"split_bans,omitempty"` // give the banned set as two WithBannedDirectives options
	// BanLayout != 0: how the caller hands the banned set over is varied from this number — the set
	// is spread over 1-3 option values (a kind may be named twice), option calls with no kinds at all
	// are put before, between and after them, the kinds come in slices with spare capacity, and the
	// caller overwrites its own slices as soon as the JApi value has been created.
	BanLayout uint64 `json:"ban_layout,omitempty"`
	// UnknownBans: values that are no directive kind at all, banned as well (they occur nowhere, so
	// they must change nothing).
	UnknownBans []int `json:"unknown_bans,omitempty"`
}

func (o Opts) options() []core.Option {
	oo, _ := o.optionsAndScribble()
	return oo
}

// optionsAndScribble returns the option values and what the caller does with its own slices after
// the JApi value was created (nil if nothing).
func (o Opts) optionsAndScribble() ([]core.Option, func()) {
	if o.BanLayout == 0 || len(o.Banned) == 0 {
		return o.plainOptions(), nil
	}
	r := newRng(o.BanLayout)
	groups := make([][]directive.Enumeration, 1+r.n(3))
	for i := range groups {
		groups[i] = make([]directive.Enumeration, 0, 1+len(o.Banned)+r.n(4))
	}
	for _, b := range o.Banned {
		g := r.n(len(groups))
		groups[g] = append(groups[g], directive.Enumeration(b))
		if r.chance(200) {
			g2 := r.n(len(groups))
			groups[g2] = append(groups[g2], directive.Enumeration(b)) // named twice
		}
	}
	for _, b := range o.UnknownBans {
		g := r.n(len(groups))
		groups[g] = append(groups[g], directive.Enumeration(b))
	}
	var oo []core.Option
	empty := func() {
		for r.chance(350) {
			if r.chance(500) {
				oo = append(oo, core.WithBannedDirectives())
			} else {
				oo = append(oo, core.WithBannedDirectives([]directive.Enumeration{}...))
			}
		}
	}
	fixedAt := r.n(len(groups) + 1)
	for i, g := range groups {
		if o.FixedSeed && i == fixedAt {
			oo = append(oo, core.WithFixedSeedForRegex())
		}
		empty()
		oo = append(oo, core.WithBannedDirectives(g...)) // an empty group is one more call without kinds
	}
	empty()
	if o.FixedSeed && fixedAt == len(groups) {
		oo = append(oo, core.WithFixedSeedForRegex())
	}
	banned := map[int]bool{}
	for _, b := range o.Banned {
		banned[b] = true
	}
	scribble := func() {
		// the caller reuses its slices for something else: every element, and the spare capacity,
		// now holds a kind that is not banned
		other := 0
		for banned[other] {
			other++
		}
		for _, g := range groups {
			g = g[:cap(g)]
			for i := range g {
				g[i] = directive.Enumeration(other)
			}
		}
	}
	if len(banned) >= nDirectiveKinds {
		scribble = nil
	}
	return oo, scribble
}

func (o Opts) plainOptions() []core.Option {
	var oo []core.Option
	if o.FixedSeed {
		oo = append(oo, core.WithFixedSeedForRegex())
	}
	if len(o.Banned) > 0 {
		dd := make([]directive.Enumeration, 0, len(o.Banned))
		for _, b := range o.Banned {
			dd = append(dd, directive.Enumeration(b))
		}
		for _, b := range o.UnknownBans {
			dd = append(dd, directive.Enumeration(b))
		}
		if o.SplitBans && len(dd) > 1 {
			// the same set given as two options
			h := len(dd) / 2
			oo = append(oo, core.WithBannedDirectives(dd[:h]...), core.WithBannedDirectives(dd[h:]...))
		} else {
			oo = append(oo, core.WithBannedDirectives(dd...))
		}
	}
	return oo
}

// Env is the simulated environment of one execution.
type Env struct {
	MapPolicy  int   `json:"map_policy"`
	PoolPolicy int   `json:"pool_policy"`
	PoolDrop   int   `json:"pool_drop,omitempty"`
	ClockStart int64 `json:"clock_start,omitempty"`
	RandSeed   int64 `json:"rand_seed,omitempty"`
	Universal  bool  `json:"universal,omitempty"`
	// ReadOrder: in which order the caller reads an accepted JApi (0: ToJson, ToJsonIndent, Title;
	// see readOrders), and whether it asks for the title before validating.
	ReadOrder int `json:"read_order,omitempty"`
	// CwdShadow: the process runs in another working directory, in which every relative name exists
	// as a regular file (only for projects whose root path is absolute).
	CwdShadow bool `json:"cwd_shadow,omitempty"`
	// ReuseInput: the project is processed twice from the very same in-memory bytes (entry "file");
	// the second result counts.
	ReuseInput bool `json:"reuse_input,omitempty"`
	// GCEvery: collect garbage every this many steps (0: never forced).
	GCEvery int `json:"gc_every,omitempty"`
	Slack   int `json:"slack,omitempty"` // spare capacity of the root content handed to kit.NewJApiFromFile (files read through the disk get os.ReadFile's capacity)
}

// Case is everything needed to repeat one simulated execution exactly.
type Case struct {
	Prop      string               `json:"property"`
	Kind      string               `json:"kind"` // sub-check
	Seed      uint64               `json:"seed"`
	Index     int                  `json:"index"`
	Project   Project              `json:"project"`
	Opts      Opts                 `json:"opts"`
	Env       Env                  `json:"env"`
	Plan      []simrt.PlannedFault `json:"plan,omitempty"`
	Decisions []simrt.Decision     `json:"decisions,omitempty"`
	Extra     map[string]any       `json:"extra,omitempty"`
	// filled when a violation is reported
	Class     string `json:"class,omitempty"`
	Signature string `json:"signature,omitempty"`
	Detail    string `json:"detail,omitempty"`
}

// ------------------------------------------------------------ result of one execution

type Result struct {
	NewErr     string `json:"new_err,omitempty"` // error of kit.NewJapi
	Accepted   bool   `json:"accepted"`
	Msg        string `json:"msg,omitempty"` // JApiError.Error() (message + include trace)
	RawMsg     string `json:"raw_msg,omitempty"`
	Index      uint   `json:"index,omitempty"`
	Line       uint   `json:"line,omitempty"`
	Quote      string `json:"quote,omitempty"`
	JSON       string `json:"json,omitempty"`
	JSONIndent string `json:"json_indent,omitempty"`
	SerErr     string `json:"ser_err,omitempty"`
	Title      string `json:"title,omitempty"`

	Panic     string `json:"panic,omitempty"`      // panic value that reached the caller
	PanicSig  string `json:"panic_sig,omitempty"`  // kind @ first library frame
	PanicKind string `json:"panic_kind,omitempty"` // runtime | budget | other
	Stage     string `json:"stage,omitempty"`      // create | validate | tojson | tojsonindent | title

	RecoveredRuntime       int    `json:"recovered_runtime,omitempty"`
	RecoveredRuntimeSite   int    `json:"recovered_runtime_site,omitempty"`
	RecoveredRuntimeMsg    string `json:"recovered_runtime_msg,omitempty"`
	RecoveredRuntimeOrigin string `json:"recovered_runtime_origin,omitempty"`

	LeakedLocks int `json:"leaked_locks,omitempty"` // locks taken and not released by this (sequential) execution

	Ticks   uint64 `json:"ticks"`
	SoftHit bool   `json:"soft_hit,omitempty"`
	FSCalls int    `json:"fs_calls"`
}

// Same compares the observable outcome of two executions (C03's notion).
func (r *Result) Same(o *Result) (bool, string) {
	switch {
	case r.Panic != "" || o.Panic != "":
		if r.PanicSig != o.PanicSig {
			return false, "panic"
		}
		return true, ""
	case r.NewErr != o.NewErr:
		return false, "new_err"
	case r.Accepted != o.Accepted:
		return false, "verdict"
	case r.Msg != o.Msg:
		return false, "message"
	case r.Index != o.Index:
		return false, "index"
	case r.Line != o.Line:
		return false, "line"
	case r.Quote != o.Quote:
		return false, "quote"
	case r.SerErr != o.SerErr:
		return false, "ser_err"
	case r.JSON != o.JSON:
		return false, "json" + firstJSONDiff(r.JSON, o.JSON)
	case r.JSONIndent != o.JSONIndent:
		return false, "json_indent"
	case r.Title != o.Title:
		return false, "title"
	}
	return true, ""
}

func firstJSONDiff(a, b string) string {
	var x, y any
	if json.Unmarshal([]byte(a), &x) != nil || json.Unmarshal([]byte(b), &y) != nil {
		return ":unparsable"
	}
	return ":" + jsonDiffPath(x, y, "")
}

func jsonDiffPath(x, y any, path string) string {
	switch xv := x.(type) {
	case map[string]any:
		yv, ok := y.(map[string]any)
		if !ok {
			return path
		}
		keys := map[string]bool{}
		for k := range xv {
			keys[k] = true
		}
		for k := range yv {
			keys[k] = true
		}
		ks := make([]string, 0, len(keys))
		for k := range keys {
			ks = append(ks, k)
		}
		sort.Strings(ks)
		for _, k := range ks {
			a, okA := xv[k]
			b, okB := yv[k]
			if !okA || !okB {
				return path + "/" + k
			}
			if d := jsonDiffPath(a, b, path+"/"+k); d != "" {
				return d
			}
		}
		// same content, different order of keys
		return ""
	case []any:
		yv, ok := y.([]any)
		if !ok || len(xv) != len(yv) {
			return path
		}
		for i := range xv {
			if d := jsonDiffPath(xv[i], yv[i], fmt.Sprintf("%s/%d", path, i)); d != "" {
				return d
			}
		}
		return ""
	default:
		if fmt.Sprint(x) != fmt.Sprint(y) {
			return path
		}
		return ""
	}
}

func (r *Result) digest() string {
	h := sha256.New()
	fmt.Fprintf(h, "%v|%s|%s|%d|%d|%s|%s|%s|%s|%s", r.Accepted, r.NewErr, r.Msg, r.Index, r.Line, r.Quote, r.JSON, r.JSONIndent, r.Title, r.PanicSig)
	return hex.EncodeToString(h.Sum(nil))[:16]
}

// ------------------------------------------------------------ running the library

// mountProject builds the simulated disk of a project.
func mountProject(p *Project, env Env, plan []simrt.PlannedFault) *simrt.Disk {
	cwd := p.cwd()
	shadow := env.CwdShadow && filepath.IsAbs(p.Root)
	if shadow {
		cwd = "/sim/elsewhere/wd"
	}
	d := simrt.NewDisk(cwd)
	if shadow {
		d.ShadowDir = cwd
		d.UniversalContent = []byte("TYPE @fromcwd\n  {\"cwd\": true}\n")
	}
	for path := range p.Files {
		d.AddFile(path, p.content(path))
	}
	for _, dir := range p.Dirs {
		d.AddDir(dir)
	}
	for l, t := range p.Links {
		if d.Links == nil {
			d.Links = map[string]string{}
		}
		d.Links[filepath.Clean(l)] = filepath.Clean(t)
	}
	for _, sp := range p.Special {
		if d.Special == nil {
			d.Special = map[string]int64{}
		}
		d.Special[filepath.Clean(sp)] = 0
	}
	d.AddDir(cwd)
	d.Plan = plan
	d.MaxCalls = 10000
	if env.Universal {
		d.Universal = true
		d.UniversalRoot = filepath.Dir(p.absRoot())
		d.UniversalContent = []byte("TYPE @universal\n  {\"escaped\": true}\n")
	}
	return d
}

func libFrame(fn string) bool {
	return strings.Contains(fn, "jsightapi/") && !strings.Contains(fn, "/zzverif")
}

// panicSignature returns "kind@package.Function" for the first library frame
// of the current (panicking) stack.
func panicSignature(r any) (kind, sig string) {
	kind = "other"
	switch v := r.(type) {
	case simrt.BudgetExceeded:
		// how deep inside PASTE expansion the budget ran out (0: not there at all)
		pcs := make([]uintptr, 1<<16)
		n := runtime.Callers(3, pcs)
		frames := runtime.CallersFrames(pcs[:n])
		lastPasteDepth = 0
		for {
			f, more := frames.Next()
			if strings.HasSuffix(f.Function, "core.(*JApiCore).processPasteDirective") {
				lastPasteDepth++
			}
			if !more {
				break
			}
		}
		return "budget", "nontermination:" + v.What
	case simrt.Deadlock:
		pcs := make([]uintptr, 64)
		n := runtime.Callers(3, pcs)
		frames := runtime.CallersFrames(pcs[:n])
		fn := "?"
		for {
			f, more := frames.Next()
			if libFrame(f.Function) {
				fn = strings.TrimPrefix(f.Function, "github.com/jsightapi/")
				break
			}
			if !more {
				break
			}
		}
		return "deadlock", "blocked-forever@" + fn
	case runtime.Error:
		kind = "runtime"
		_ = v
	}
	pcs := make([]uintptr, 64)
	n := runtime.Callers(3, pcs)
	frames := runtime.CallersFrames(pcs[:n])
	fn := "?"
	for {
		f, more := frames.Next()
		if libFrame(f.Function) {
			fn = f.Function
			break
		}
		if !more {
			break
		}
	}
	fn = strings.TrimPrefix(fn, "github.com/jsightapi/")
	msg := fmt.Sprint(r)
	return kind, kind + ":" + normPanicMsg(msg) + "@" + fn
}

// normPanicMsg strips run-dependent numbers from a panic message.
func normPanicMsg(s string) string {
	if i := strings.Index(s, "\n"); i >= 0 {
		s = s[:i]
	}
	var b strings.Builder
	lastDigit := false
	for _, c := range s {
		if c >= '0' && c <= '9' {
			if !lastDigit {
				b.WriteByte('N')
			}
			lastDigit = true
			continue
		}
		lastDigit = false
		b.WriteRune(c)
	}
	out := b.String()
	if len(out) > 80 {
		out = out[:80]
	}
	return out
}

// runLibrary drives the public API once: create, validate, serialise.
// The simulated disk and environment must already be installed.
func runLibrary(root string, rootContent []byte, o Opts) (res Result) {
	oo, scribble := o.optionsAndScribble()
	afterCreate = scribble
	defer func() { afterCreate = nil }()
	return runLibraryWith(root, rootContent, oo, o.Entry)
}

// sharedRootBuffer, if set, makes successive executions use one and the same root buffer: the
// first one fills it, the later ones hand it to the library as it then is.
var sharedRootBuffer *[]byte
var sharedRootFile *schemafs.File

// lastPasteDepth: number of nested PASTE expansions on the stack when the step budget ran out.
var lastPasteDepth int

// lastRootContent is the root text of the most recent execute (after faults on the root content).
var lastRootContent []byte

// afterCreate, if set, is what the caller does between creating and validating the JApi value
// (sequential executions only).
var afterCreate func()

// curReadOrder is Env.ReadOrder of the execution under way.
var curReadOrder int

// readOrders: the calls a caller makes on an accepted JApi, in order (j ToJson, i ToJsonIndent,
// t Title). Leading capitals are the same calls made before validation (their answers are dropped).
var readOrders = []string{"jit", "tji", "itj", "Tjit", "jtji", "Titj", "tij", "Jjit", "Iitj", "TIJtij"}

// executeWith is execute for option values built by the caller (so that one option value
// can be shared between several JApi values).
func executeWith(p *Project, oo []core.Option, entry string, env Env, seed uint64) (Result, *simrt.Disk) {
	simrt.Active = true
	simrt.Reset(seed)
	simrt.SetMapPolicy(env.MapPolicy)
	simrt.SetPoolPolicy(env.PoolPolicy, env.PoolDrop)
	simrt.SetClock(1_700_000_000+env.ClockStart, env.RandSeed)
	curReadOrder = env.ReadOrder
	simrt.SetGCEvery(uint64(env.GCEvery))
	d := mountProject(p, env, nil)
	simrt.FS = d
	total := uint64(p.totalBytes() + 200)
	simrt.SetBudget(softFactor*total, hardFactor*total)
	rc := p.content(p.absRoot())
	rootContent := make([]byte, len(rc), len(rc)+env.Slack)
	copy(rootContent, rc)
	res := runLibraryWith(p.Root, rootContent, oo, entry)
	simrt.SetBudget(^uint64(0), ^uint64(0))
	eh, en := simrt.EventHash()
	traceFold(eh, en, hash64(res.digest()))
	return res, d
}

func runLibraryWith(root string, rootContent []byte, options []core.Option, entry string) (res Result) {
	stage := "create"
	if !simrt.Scheduling() {
		simrt.ResetSeqHeld()
	}
	defer func() {
		if r := recover(); r != nil {
			res.PanicKind, res.PanicSig = panicSignature(r)
			res.Panic = fmt.Sprint(r)
			if len(res.Panic) > 300 {
				res.Panic = res.Panic[:300]
			}
			res.Stage = stage
		}
		if !simrt.Scheduling() {
			res.LeakedLocks = simrt.SeqHeldLocks()
		}
		res.Ticks, res.SoftHit = simrt.Ticks()
		n, site, msg, origin := simrt.RecoveredRuntimeErrors()
		res.RecoveredRuntime, res.RecoveredRuntimeSite, res.RecoveredRuntimeMsg = n, int(site), msg
		res.RecoveredRuntimeOrigin = strings.TrimPrefix(origin, "github.com/jsightapi/")
		if simrt.FS != nil && !simrt.Scheduling() {
			res.FSCalls = simrt.FS.Calls
		}
	}()
	var j kit.JApi
	if entry == "file" {
		file := schemafs.NewFile(root, rootContent)
		if sharedRootBuffer != nil {
			// ... and the very same file object
			if sharedRootFile == nil {
				sharedRootFile = file
			} else {
				file = sharedRootFile
			}
		}
		j = kit.NewJApiFromFile(file, options...)
	} else {
		var err error
		j, err = kit.NewJapi(root, options...)
		if err != nil {
			res.NewErr = err.Error()
			return res
		}
	}
	if afterCreate != nil && !simrt.Scheduling() {
		afterCreate()
	}
	order := readOrders[0]
	if curReadOrder > 0 && curReadOrder < len(readOrders) {
		order = readOrders[curReadOrder]
	}
	for len(order) > 0 && order[0] >= 'A' && order[0] <= 'Z' {
		stage = "read-before-validate"
		switch order[0] {
		case 'T':
			_ = j.Title()
		case 'J':
			_, _ = j.ToJson()
		case 'I':
			_, _ = j.ToJsonIndent()
		}
		order = order[1:]
	}
	stage = "validate"
	je := j.ValidateJAPI()
	if je != nil {
		fillError(&res, je)
		return res
	}
	res.Accepted = true
	var b, b2 []byte
	var err error
	haveJ, haveI := false, false
	for _, what := range order {
		switch what {
		case 'j':
			stage = "tojson"
			bb, e := j.ToJson()
			if !haveJ {
				b, err, haveJ = bb, e, true
				if e != nil {
					res.SerErr += "tojson: " + e.Error()
				}
				res.JSON = string(b)
			} else if string(bb) != res.JSON && e == nil {
				res.SerErr += " second-tojson-differs"
			}
		case 'i':
			stage = "tojsonindent"
			bb, e := j.ToJsonIndent()
			if !haveI {
				b2, haveI = bb, true
				if e != nil {
					res.SerErr += " tojsonindent: " + e.Error()
				}
				res.JSONIndent = string(b2)
			}
		case 't':
			stage = "title"
			res.Title = j.Title()
		}
	}
	// The bytes handed out earlier belong to the caller: a second serialisation (here, or by another
	// goroutine of a concurrent workload) must not change them.
	stage = "tojson-again"
	b3, _ := j.ToJson()
	if string(b) != res.JSON || string(b2) != res.JSONIndent {
		res.SerErr += " returned-bytes-changed-after-return"
	}
	if string(b3) != res.JSON && err == nil {
		res.SerErr += " second-tojson-differs"
	}
	if b4, e := j.ToJsonIndent(); e == nil && string(b4) != res.JSONIndent {
		res.SerErr += " second-tojsonindent-differs"
	}
	if j.Title() != res.Title {
		res.SerErr += " second-title-differs"
	}
	return res
}

func fillError(res *Result, je *jerr.JApiError) {
	res.Msg = je.Error()
	res.RawMsg = je.Msg
	res.Index = uint(je.Index())
	res.Line = uint(je.Line())
	res.Quote = je.Quote()
}

// execute runs one project under one environment and fault plan, recording or
// forcing decisions.
func execute(p *Project, o Opts, env Env, plan []simrt.PlannedFault, seed uint64, forced []simrt.Decision) (Result, *simrt.Disk, []simrt.Decision) {
	simrt.Active = true
	simrt.Reset(seed)
	if forced != nil {
		simrt.Force(forced)
	}
	simrt.SetMapPolicy(env.MapPolicy)
	simrt.SetPoolPolicy(env.PoolPolicy, env.PoolDrop)
	simrt.SetClock(1_700_000_000+env.ClockStart, env.RandSeed)
	curReadOrder = env.ReadOrder
	simrt.SetGCEvery(uint64(env.GCEvery))
	d := mountProject(p, env, plan)
	simrt.FS = d
	total := uint64(p.totalBytes() + 200)
	simrt.SetBudget(softFactor*total, hardFactor*total)
	rc := p.content(p.absRoot())
	if o.Entry == "file" {
		// the root does not pass through the disk: faults planned for "call -1" hit its content here
		for _, f := range plan {
			if f.Call == -1 {
				rc = simrt.ApplyContentFault(rc, f)
			}
		}
	}
	rootContent := make([]byte, len(rc), len(rc)+env.Slack)
	copy(rootContent, rc)
	if sharedRootBuffer != nil {
		// the caller hands the very same bytes to the library again (NewJApiFromFile on one buffer)
		if len(*sharedRootBuffer) == 0 {
			*sharedRootBuffer = rootContent
		} else {
			rootContent = *sharedRootBuffer
		}
	}
	lastRootContent = append(lastRootContent[:0], rc...)
	var res Result
	if treeSpawnsGoroutines() {
		// the library starts goroutines itself: even a single parse is a schedule
		simrt.SetSchedPolicy(700, -1, 0, 0)
		panics := simrt.RunGoroutines([]func(){func() { res = runLibrary(p.Root, rootContent, o) }})
		notePanics(&res, panics)
	} else {
		res = runLibrary(p.Root, rootContent, o)
	}
	dec, _ := simrt.Decisions()
	simrt.SetBudget(^uint64(0), ^uint64(0))
	eh, en := simrt.EventHash()
	traceFold(eh, en, hash64(res.digest()))
	return res, d, dec
}

const (
	// steps per project byte (+200): the observed worst case over corpus and generator is < 100
	softFactor = 2000
	hardFactor = 80000 // observed worst case over 3M executions of the thorough tier: 3.7k
)

func init() {
	debug.SetMaxStack(128 << 20)
}

// ------------------------------------------------------------ small helpers

type rng struct{ s uint64 }

func newRng(seed uint64) *rng {
	r := &rng{s: seed*0x9E3779B97F4A7C15 + 0xD1B54A32D192ED03}
	if r.s == 0 {
		r.s = 1
	}
	r.next()
	return r
}

func (r *rng) next() uint64 {
	x := r.s
	x ^= x >> 12
	x ^= x << 25
	x ^= x >> 27
	r.s = x
	return x * 0x2545F4914F6CDD1D
}

func (r *rng) n(n int) int {
	if n <= 1 {
		return 0
	}
	return int(r.next() % uint64(n))
}

func (r *rng) chance(permille int) bool { return r.n(1000) < permille }

func (r *rng) pick(ss []string) string { return ss[r.n(len(ss))] }

func splitmix(seed uint64, i uint64) uint64 {
	z := seed + (i+1)*0x9E3779B97F4A7C15
	z = (z ^ (z >> 30)) * 0xBF58476D1CE4E5B9
	z = (z ^ (z >> 27)) * 0x94D049BB133111EB
	return z ^ (z >> 31)
}

func must(err error) {
	if err != nil {
		fmt.Fprintln(os.Stderr, "worker: fatal:", err)
		os.Exit(97)
	}
}

func trunc(s string, n int) string {
	if len(s) > n {
		return s[:n] + "…"
	}
	return s
}

func hash64(s string) uint64 {
	h := uint64(1469598103934665603)
	for i := 0; i < len(s); i++ {
		h = (h ^ uint64(s[i])) * 1099511628211
	}
	return h
}

// distinctList renders a set of hashes for the stats file (hex, compact).
func distinctList(m map[uint64]bool) []string {
	out := make([]string, 0, len(m))
	for k := range m {
		out = append(out, fmt.Sprintf("%x", k))
	}
	sort.Strings(out)
	return out
}

// traceAcc folds the event hash and result digest of every execution of this
// process; the determinism self-test prints it after each case.
var traceAcc uint64 = 1469598103934665603
var traceExecs uint64

func init() {
	if v := os.Getenv("SIM_DEBUG_EVENTS"); v != "" {
		want := uint64(atoi(v))
		simrt.DebugEvent = func(a, b, c uint64) {
			if traceExecs == want {
				fmt.Fprintf(os.Stderr, "EV %d %x %x\n", a, b, c)
			}
		}
		simrt.DebugMap = func(site, n int, typ string) {
			if traceExecs == want {
				fmt.Fprintf(os.Stderr, "MAP site %d n %d g %d\n", site, n, simrt.CurrentG())
				if site == 4 && os.Getenv("SIM_DEBUG_STACK") != "" {
					pcs := make([]uintptr, 40)
					k := runtime.Callers(3, pcs)
					fr := runtime.CallersFrames(pcs[:k])
					for {
						f, more := fr.Next()
						if strings.Contains(f.Function, "jsightapi") {
							fmt.Fprintf(os.Stderr, "    %s:%d\n", f.Function[strings.LastIndex(f.Function, "/")+1:], f.Line)
						}
						if !more {
							break
						}
					}
				}
			}
		}
	}
}

func traceFold(vals ...uint64) {
	if os.Getenv("SIM_DEBUG_TRACE") != "" {
		fmt.Fprintf(os.Stderr, "TRACE exec %d vals %x\n", traceExecs, vals)
	}
	for _, v := range vals {
		traceAcc = (traceAcc ^ v) * 1099511628211
	}
	traceExecs++
}

// respellRoot gives the root another spelling of the same path now and then: "./" and "//"
// components, or a path relative to the simulated working directory. Every spelling opens the
// same file, so nothing about the project changes.
func respellRoot(p *Project, r *rng) {
	abs := p.absRoot()
	dir, base := filepath.Dir(abs), filepath.Base(abs)
	switch r.n(12) {
	case 0:
		p.Root = dir + "/./" + base
	case 1:
		p.Root = dir + "//" + base
	case 2:
		p.Cwd = dir
		p.Root = "./" + base
	case 3:
		p.Cwd = dir
		p.Root = base
	case 4:
		p.Cwd = filepath.Dir(dir)
		p.Root = filepath.Base(dir) + "/" + base
	}
}

var spawnsGo = -1

// treeSpawnsGoroutines: does the rewritten tree contain go statements (site table, seam "go")?
func treeSpawnsGoroutines() bool {
	if spawnsGo < 0 {
		spawnsGo = 0
		var t struct {
			Seams map[string]int `json:"seams"`
		}
		if b, err := os.ReadFile(sitesPath); err == nil && json.Unmarshal(b, &t) == nil && t.Seams["go"] > 0 {
			spawnsGo = 1
		}
	}
	return spawnsGo == 1
}

// notePanics records panics of simulated goroutines (also of those the library started itself:
// in a real process an unrecovered panic in any goroutine is fatal).
func notePanics(res *Result, panics []interface{}) {
	all := append([]interface{}{}, panics...)
	all = append(all, simrt.ExtraPanics()...)
	for _, pv := range all {
		if pv != nil && res.Panic == "" {
			res.Panic = fmt.Sprint(pv)
			res.PanicKind = "other"
			if _, ok := pv.(simrt.BudgetExceeded); ok {
				res.PanicKind = "budget"
			}
			res.PanicSig = "goroutine:" + normPanicMsg(fmt.Sprint(pv))
		}
	}
}

// isReadOp: does this simulated file-system operation deliver the content of a file?
// (os.ReadFile is logged as "readfile", os.Open/os.OpenFile as "open": a tree may use either.)
func isReadOp(op string) bool { return op == "readfile" || op == "open" }

// linkOneFile turns one included file of the project into a symbolic link to its content, which
// moves to a sibling name: every call that follows links sees the same project.
func linkOneFile(p *Project, r *rng) bool {
	var inc []string
	for _, f := range sortedKeys(p.Files) {
		if f != p.absRoot() {
			inc = append(inc, f)
		}
	}
	if len(inc) == 0 {
		return false
	}
	f := inc[r.n(len(inc))]
	target := filepath.Join(filepath.Dir(f), "real_"+filepath.Base(f))
	if _, used := p.Files[target]; used {
		return false
	}
	p.Files[target] = p.Files[f]
	delete(p.Files, f)
	if p.Links == nil {
		p.Links = map[string]string{}
	}
	p.Links[f] = target
	return true
}

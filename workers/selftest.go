package main

import (
	"flag"
	"fmt"
	"os"
	"path/filepath"
	"strings"

	simrt "verif.local/simrt"
)

// ---- stub validation: the simulated disk against a real directory ----------

func writeReal(p *Project) {
	for path := range p.Files {
		must(os.MkdirAll(filepath.Dir(path), 0o755))
		must(os.WriteFile(path, p.content(path), 0o644))
	}
	for _, d := range p.Dirs {
		must(os.MkdirAll(d, 0o755))
	}
}

func executeReal(p *Project, o Opts) Result {
	simrt.Active = false
	simrt.FS = nil
	simrt.Reset(1)
	res := runLibrary(p.Root, p.content(p.absRoot()), o)
	simrt.Active = true
	return res
}

// rebase moves a project under a real directory (same absolute paths on the
// simulated and on the real disk, because paths appear in diagnostics).
func rebase(p *Project, base string) Project {
	q := Project{Cwd: base, Name: p.Name}
	common := filepath.Dir(p.absRoot())
	// find the common ancestor of all files
	for path := range p.Files {
		for !strings.HasPrefix(path, common+"/") && common != "/" {
			common = filepath.Dir(common)
		}
	}
	mv := func(path string) string {
		rel, _ := filepath.Rel(common, path)
		return filepath.Join(base, rel)
	}
	for path := range p.Files {
		q.Files = mapSet(q.Files, mv(path), p.Files[path])
	}
	for _, d := range p.Dirs {
		q.Dirs = append(q.Dirs, mv(d))
	}
	q.Root = mv(p.absRoot())
	return q
}

func mapSet(m map[string]string, k, v string) map[string]string {
	if m == nil {
		m = map[string]string{}
	}
	m[k] = v
	return m
}

func cmdSelftestFS(args []string) {
	if len(args) < 1 {
		must(fmt.Errorf("selftest-fs DIR"))
	}
	base := args[0]
	cp := loadCorpus()
	r := newRng(42)
	n, faults := 0, 0
	var projects []*Project
	for i := range cp.roots {
		if strings.Contains(string(cp.files[cp.roots[i]]), "INCLUDE") || i%12 == 0 {
			projects = append(projects, corpusProject(i))
		}
	}
	for i := 0; i < 40; i++ {
		d := generateDoc(r, randomCfg(r))
		_, multi, nc := cutProject(d, r, "/sim/proj/api", 3)
		if nc > 0 {
			m := multi
			projects = append(projects, &m)
		}
	}
	fail := func(what string, p *Project, a, b *Result, why string) {
		fmt.Printf("FS-STUB-MISMATCH %s project=%s field=%s\n sim : accepted=%v msg=%q new=%q idx=%d line=%d\n real: accepted=%v msg=%q new=%q idx=%d line=%d\n",
			what, p.Name, why, a.Accepted, a.Msg, a.NewErr, a.Index, a.Line, b.Accepted, b.Msg, b.NewErr, b.Index, b.Line)
		os.Exit(1)
	}
	for pi, p0 := range projects {
		dir := filepath.Join(base, fmt.Sprintf("p%d", pi))
		p := rebase(p0, dir)
		for _, entry := range []string{"path", "file"} {
			o := Opts{FixedSeed: true, Entry: entry}
			must(os.RemoveAll(dir))
			writeReal(&p)
			simRes, disk, _ := execute(&p, o, refEnv, nil, 1, nil)
			realRes := executeReal(&p, o)
			n++
			if same, why := simRes.Same(&realRes); !same {
				fail("fault-free", &p, &simRes, &realRes, why)
			}
			if entry != "path" {
				continue
			}
			// faults the real disk can produce: per include-related call of the reference run
			for ci, e := range disk.Log {
				if e.Op != "stat" && e.Op != "readfile" {
					continue
				}
				ap := filepath.Clean(e.Path)
				if _, ok := p.Files[ap]; !ok {
					continue
				}
				content := p.content(ap)
				type variant struct {
					name  string
					plan  simrt.PlannedFault
					apply func()
				}
				vs := []variant{
					{"enoent", simrt.PlannedFault{Call: ci, Kind: simrt.FEnoent}, func() { must(os.Remove(ap)) }},
					{"empty", simrt.PlannedFault{Call: ci, Kind: simrt.FEmpty}, func() { must(os.WriteFile(ap, nil, 0o644)) }},
				}
				if e.Op == "stat" {
					vs = append(vs, variant{"eisdir", simrt.PlannedFault{Call: ci, Kind: simrt.FEisdir}, func() { must(os.Remove(ap)); must(os.Mkdir(ap, 0o755)) }})
				}
				if e.Op == "readfile" && len(content) > 1 {
					k := r.n(len(content))
					vs = append(vs, variant{"torn", simrt.PlannedFault{Call: ci, Kind: simrt.FTorn, P1: k}, func() { must(os.WriteFile(ap, content[:k], 0o644)) }})
					fl := append([]byte(nil), content...)
					b := byte("(){}\"/\n#@"[r.n(9)])
					if fl[k] == b {
						b ^= 0x20
					}
					fl[k] = b
					vs = append(vs, variant{"flip", simrt.PlannedFault{Call: ci, Kind: simrt.FFlip, P1: k, P2: int(b)}, func() { must(os.WriteFile(ap, fl, 0o644)) }})
				}
				for _, v := range vs {
					// A real-disk state change is persistent while a planned fault hits one call;
					// they coincide when the path is touched by exactly one stat and one read.
					// A stat-time fault (the target vanished before stat) equals the persistent state;
					// a read-time fault equals it only if the stat still succeeds, which for
					// enoent it does not: so read-time enoent is only reachable in simulation.
					if e.Op == "readfile" && (v.name == "enoent") && ap != p.absRoot() {
						continue
					}
					if e.Op == "stat" && (v.name == "empty") {
						continue // content faults do not apply to stat
					}
					if countTouches(disk.Log, ap) > 2 {
						continue
					}
					must(os.RemoveAll(dir))
					writeReal(&p)
					v.apply()
					realRes := executeReal(&p, o)
					simRes, d2, _ := execute(&p, o, refEnv, []simrt.PlannedFault{v.plan}, 1, nil)
					if d2.Fired[v.plan.Kind] == 0 {
						continue
					}
					faults++
					if same, why := simRes.Same(&realRes); !same {
						fail(v.name+"@"+e.Op, &p, &simRes, &realRes, why)
					}
				}
			}
		}
		os.RemoveAll(dir)
	}
	fmt.Printf("fs stub validation ok: %d fault-free comparisons, %d fault comparisons\n", n, faults)
}

func countTouches(log []simrt.FSEvent, path string) int {
	n := 0
	for _, e := range log {
		if filepath.Clean(e.Path) == path {
			n++
		}
	}
	return n
}

// ---- determinism: same seed, same event log --------------------------------

func cmdSelftestDet(args []string) {
	fs := flag.NewFlagSet("selftest-det", flag.ExitOnError)
	prop := fs.String("prop", "", "")
	seed := fs.Uint64("seed", 1, "")
	n := fs.Int("n", 12, "")
	must(fs.Parse(args))
	r := getRunner(*prop, "quick")
	total := r.NumCases("quick")
	simrt.OnDeadlock = func(blocked int) {
		// a deadlock is a finding of the check proper, not a determinism matter: it is
		// deterministic as well, so all three self-test runs print the same line and stop
		fmt.Printf("deadlock with %d goroutines blocked (reported by the check itself)\n", blocked)
		os.Exit(0)
	}
	for i := 0; i < *n; i++ {
		idx := int(splitmix(*seed^0xabcdef, uint64(i)) % uint64(total))
		vv := r.RunCase(*seed, idx)
		fmt.Printf("case %d idx %d violations %d execs %d trace %016x\n", i, idx, len(vv), traceExecs, traceAcc)
	}
}

package main

import (
	"flag"
	"fmt"
	"os"
	"path/filepath"
	"regexp"
	"strings"

	simrt "verif.local/simrt"
)

// ---- stub validation: the simulated disk against a real directory ----------

func writeReal(p *Project) {
	for path := range p.Files {
		must(os.MkdirAll(filepath.Dir(path), 0o755))
		must(os.WriteFile(path, p.content(path), 0o644))
	}
	for _, d := range p.Dirs {
		must(os.MkdirAll(d, 0o755))
	}
}

func executeReal(p *Project, o Opts) Result {
	simrt.Active = false
	simrt.FS = nil
	simrt.Reset(1)
	res := runLibrary(p.Root, p.content(p.absRoot()), o)
	simrt.Active = true
	return res
}

// rebase moves a project under a real directory (same absolute paths on the
// simulated and on the real disk, because paths appear in diagnostics).
func rebase(p *Project, base string) Project {
	q := Project{Cwd: base, Name: p.Name}
	common := filepath.Dir(p.absRoot())
	// find the common ancestor of all files
	for path := range p.Files {
		for !strings.HasPrefix(path, common+"/") && common != "/" {
			common = filepath.Dir(common)
		}
	}
	mv := func(path string) string {
		rel, _ := filepath.Rel(common, path)
		return filepath.Join(base, rel)
	}
	for path := range p.Files {
		q.Files = mapSet(q.Files, mv(path), p.Files[path])
	}
	for _, d := range p.Dirs {
		q.Dirs = append(q.Dirs, mv(d))
	}
	for _, sp := range p.Special {
		q.Special = append(q.Special, mv(sp))
	}
	for l, t := range p.Links {
		if q.Links == nil {
			q.Links = map[string]string{}
		}
		q.Links[mv(l)] = mv(t)
	}
	q.Root = mv(p.absRoot())
	return q
}

func mapSet(m map[string]string, k, v string) map[string]string {
	if m == nil {
		m = map[string]string{}
	}
	m[k] = v
	return m
}

func cmdSelftestFS(args []string) {
	if len(args) < 1 {
		must(fmt.Errorf("selftest-fs DIR"))
	}
	base := args[0]
	cp := loadCorpus()
	r := newRng(42)
	n, faults := 0, 0
	var projects []*Project
	for i := range cp.roots {
		if strings.Contains(string(cp.files[cp.roots[i]]), "INCLUDE") || i%12 == 0 {
			projects = append(projects, corpusProject(i))
		}
	}
	for i := 0; i < 40; i++ {
		d := generateDoc(r, randomCfg(r))
		_, multi, nc := cutProject(d, r, "/sim/proj/api", 3)
		if nc > 0 {
			m := multi
			projects = append(projects, &m)
		}
	}
	fail := func(what string, p *Project, a, b *Result, why string) {
		fmt.Printf("FS-STUB-MISMATCH %s project=%s field=%s\n sim : accepted=%v msg=%q new=%q idx=%d line=%d\n real: accepted=%v msg=%q new=%q idx=%d line=%d\n",
			what, p.Name, why, a.Accepted, a.Msg, a.NewErr, a.Index, a.Line, b.Accepted, b.Msg, b.NewErr, b.Index, b.Line)
		os.Exit(1)
	}
	for pi, p0 := range projects {
		// every comparison gets its own directory: a change that keeps path-keyed state between
		// parses must not make the simulated and the real run of *this* validation interfere
		vn := 0
		fresh := func() (Project, string) {
			vn++
			dir := filepath.Join(base, fmt.Sprintf("p%d", pi), fmt.Sprintf("v%d", vn))
			return rebase(p0, dir), dir
		}
		for _, entry := range []string{"path", "file"} {
			o := Opts{FixedSeed: true, Entry: entry}
			p, dir := fresh()
			writeReal(&p)
			simRes, disk, _ := execute(&p, o, refEnv, nil, 1, nil)
			realRes := executeReal(&p, o)
			os.RemoveAll(dir)
			n++
			simRes.SerErr, realRes.SerErr = "", "" // pool recycling (not the disk) decides this field
			stripExamples(&simRes, &realRes)
			if same, why := simRes.Same(&realRes); !same {
				fail("fault-free", &p, &simRes, &realRes, why)
			}
			if entry != "path" {
				continue
			}
			refLog := disk.Log
			refDir := dir
			// faults the real disk can produce: per include-related call of the reference run
			for ci, e := range refLog {
				if e.Op != "stat" && !isReadOp(e.Op) {
					continue
				}
				relp, err := filepath.Rel(refDir, filepath.Clean(e.Path))
				if err != nil || strings.HasPrefix(relp, "..") {
					continue
				}
				if _, ok := p.Files[filepath.Join(refDir, relp)]; !ok {
					continue
				}
				content := p.content(filepath.Join(refDir, relp))
				isRoot := filepath.Join(refDir, relp) == p.absRoot()
				touches := countTouches(refLog, filepath.Join(refDir, relp))
				type variant struct {
					name  string
					kind  int
					p1    int
					p2    int
					apply func(ap string)
				}
				vs := []variant{
					{"enoent", simrt.FEnoent, 0, 0, func(ap string) { must(os.Remove(ap)) }},
					{"empty", simrt.FEmpty, 0, 0, func(ap string) { must(os.WriteFile(ap, nil, 0o644)) }},
				}
				if e.Op == "stat" {
					vs = append(vs, variant{"eisdir", simrt.FEisdir, 0, 0, func(ap string) { must(os.Remove(ap)); must(os.Mkdir(ap, 0o755)) }})
				}
				if isReadOp(e.Op) && len(content) > 1 {
					k := r.n(len(content))
					vs = append(vs, variant{"torn", simrt.FTorn, k, 0, func(ap string) { must(os.WriteFile(ap, content[:k], 0o644)) }})
					fl := append([]byte(nil), content...)
					b := byte("(){}\"/\n#@"[r.n(9)])
					if fl[k] == b {
						b ^= 0x20
					}
					fl[k] = b
					vs = append(vs, variant{"flip", simrt.FFlip, k, int(b), func(ap string) { must(os.WriteFile(ap, fl, 0o644)) }})
				}
				for _, v := range vs {
					// A real-disk state change is persistent while a planned fault hits one call;
					// they coincide when the path is touched by exactly one stat and one read.
					// A read-time enoent (file vanished between stat and read) is only reachable in simulation.
					if isReadOp(e.Op) && v.name == "enoent" && !isRoot {
						continue
					}
					if e.Op == "stat" && v.name == "empty" {
						continue // content faults do not apply to stat
					}
					if touches > 2 {
						continue
					}
					q, qdir := fresh()
					writeReal(&q)
					v.apply(filepath.Join(qdir, relp))
					realRes := executeReal(&q, o)
					plan := []simrt.PlannedFault{{Call: ci, Kind: v.kind, P1: v.p1, P2: v.p2}}
					simRes, d2, _ := execute(&q, o, refEnv, plan, 1, nil)
					os.RemoveAll(qdir)
					if d2.Fired[v.kind] == 0 {
						continue
					}
					faults++
					simRes.SerErr, realRes.SerErr = "", ""
					stripExamples(&simRes, &realRes)
					if same, why := simRes.Same(&realRes); !same {
						fail(v.name+"@"+e.Op, &q, &simRes, &realRes, why)
					}
				}
			}
		}
		os.RemoveAll(filepath.Join(base, fmt.Sprintf("p%d", pi)))
	}
	fmt.Printf("fs stub validation ok: %d fault-free comparisons, %d fault comparisons\n", n, faults)
}

func countTouches(log []simrt.FSEvent, path string) int {
	n := 0
	for _, e := range log {
		if filepath.Clean(e.Path) == path {
			n++
		}
	}
	return n
}

// ---- determinism: same seed, same event log --------------------------------

func cmdSelftestDet(args []string) {
	fs := flag.NewFlagSet("selftest-det", flag.ExitOnError)
	prop := fs.String("prop", "", "")
	seed := fs.Uint64("seed", 1, "")
	n := fs.Int("n", 12, "")
	must(fs.Parse(args))
	r := getRunner(*prop, "quick")
	total := r.NumCases("quick")
	simrt.OnDeadlock = func(blocked int) {
		// a deadlock is a finding of the check proper, not a determinism matter: it is
		// deterministic as well, so all three self-test runs print the same line and stop
		fmt.Printf("deadlock with %d goroutines blocked (reported by the check itself)\n", blocked)
		os.Exit(0)
	}
	for i := 0; i < *n; i++ {
		idx := int(splitmix(*seed^0xabcdef, uint64(i)) % uint64(total))
		vv := r.RunCase(*seed, idx)
		fmt.Printf("case %d idx %d violations %d execs %d trace %016x\n", i, idx, len(vv), traceExecs, traceAcc)
	}
}

var exampleRe = regexp.MustCompile(`"example":\s*"(?:[^"\\]|\\.)*"`)

// stripExamples removes generated examples from the JSON of both results: the real run iterates
// maps in the runtime's order, and examples of regex types depend on that order (a known finding
// of C03 that has nothing to do with the disk).
func stripExamples(rr ...*Result) {
	for _, r := range rr {
		r.JSON = exampleRe.ReplaceAllString(r.JSON, `"example":""`)
		r.JSONIndent = exampleRe.ReplaceAllString(r.JSONIndent, `"example":""`)
	}
}

package main

import (
	"encoding/json"
	"fmt"
	"os"
	"os/exec"
	"sort"
	"strconv"
	"strings"
	"time"

	"github.com/anishathalye/porcupine"

	"github.com/jsightapi/jsight-api-go-library/catalog"
	"github.com/jsightapi/jsight-api-go-library/core"
	"github.com/jsightapi/jsight-api-go-library/directive"
	"github.com/jsightapi/jsight-api-go-library/notation"
	schemafs "github.com/jsightapi/jsight-schema-go-library/fs"
	simrt "verif.local/simrt"
)

// C16 — Concurrency: independent parses and concurrent reads do not interfere.
//
// W1 concurrent parses, W2 concurrent readers of one catalog, W3 linearizability
// of the lock-guarded collections — all under the seeded scheduler (real
// goroutines, one runnable at a time). The same binary built with -race also
// reports the data races of each simulated schedule.

type c16 struct {
	tier          string
	nW1, nW2, nW3 int
	nCold         int
	sites         siteTable
	raceLog       string
	raceOff       int64
	st            c16stats
}

type c16stats struct {
	Exec, W1, W2, W3, Cold              int
	Goroutines, Ops                     int
	MaxG                                int
	PorcupineOK, PorcupineUnknown       int
	CallbackFaults, Stalls              int
	RaceReportsLibrary, RaceReportsSeen int
	Interleavings, Nontrivial           map[uint64]bool
	PerCollection                       map[string]int
	Samples                             []any
	OverlappingOps                      int
}

var collectionNames = []string{"Servers", "Tags", "UserTypes", "UserRules", "Interactions", "Directives", "StringSet", "RulesBuilder"}

func init() {
	runners["C16"] = func(tier string) runner {
		c := &c16{tier: tier}
		c.nW1, c.nW2, c.nW3, c.nCold = 700, 300, 2400, 48
		if raceBuild {
			c.nW1, c.nW2, c.nW3, c.nCold = 160, 80, 600, 16
		}
		if tier == "thorough" {
			c.nW1, c.nW2, c.nW3, c.nCold = 100000, 40000, 400000, 3000
			if raceBuild {
				c.nW1, c.nW2, c.nW3, c.nCold = 20000, 8000, 80000, 800
			}
		}
		c.st.Interleavings = map[uint64]bool{}
		c.st.Nontrivial = map[uint64]bool{}
		c.st.PerCollection = map[string]int{}
		c.sites = loadSiteTable()
		if raceBuild {
			c.initRaceLog()
		}
		return c
	}
}

func (c *c16) NumCases(string) int { return c.nW1 + c.nW2 + c.nW3 + c.nCold }

func (c *c16) Stats() map[string]any {
	sw, yl, lw, ow, hot := simrt.SchedStats()
	gets, reuses, cross, drops, notLast := simrt.PoolStats()
	return map[string]any{
		"executions": c.st.Exec, "w1_concurrent_parses": c.st.W1, "w2_concurrent_readers": c.st.W2, "w3_collection_histories": c.st.W3,
		"cold_start_runs": c.st.Cold, "goroutines_started": c.st.Goroutines, "max_goroutines_in_one_run": c.st.MaxG, "collection_operations": c.st.Ops,
		"porcupine_ok": c.st.PorcupineOK, "porcupine_unknown": c.st.PorcupineUnknown, "callback_faults_injected": c.st.CallbackFaults,
		"stalled_goroutine_runs": c.st.Stalls, "race_build": raceBuild, "race_reports_in_library": c.st.RaceReportsLibrary,
		"histories_with_overlapping_operations": c.st.OverlappingOps, "per_collection": c.st.PerCollection,
		"sched":    map[string]any{"switches": sw, "yields": yl, "lock_waits": lw, "once_waits": ow, "switches_inside_library": hot},
		"pool":     map[string]any{"gets": gets, "reuses": reuses, "cross_goroutine": cross, "drops": drops, "not_most_recent": notLast},
		"distinct": distinctList(c.st.Interleavings), "distinct_nontrivial_keys": distinctList(c.st.Nontrivial), "samples": c.st.Samples,
	}
}

// ------------------------------------------------------------------ race log

func (c *c16) initRaceLog() {
	// GORACE=log_path=<prefix> makes the runtime write reports to <prefix>.<pid>
	for _, kv := range strings.Fields(os.Getenv("GORACE")) {
		if strings.HasPrefix(kv, "log_path=") {
			c.raceLog = strings.TrimPrefix(kv, "log_path=") + "." + strconv.Itoa(os.Getpid())
		}
	}
	if c.raceLog == "" {
		fmt.Fprintln(os.Stderr, "worker: race build needs GORACE=log_path=...")
		os.Exit(97)
	}
}

type raceReport struct {
	owners [2]string // library | simrt | worker | other, per access
	funcs  [2]string // first non-std frame of each access
	via    [2]string // innermost library frame of each access ("" if the access is not inside a library call)
	text   string
}

func frameOwner(fn string) string {
	switch {
	case strings.Contains(fn, "/zzverif") || strings.HasPrefix(fn, "main."):
		return "worker"
	case strings.Contains(fn, "verif.local/simrt"):
		return "simrt"
	case strings.Contains(fn, "jsightapi/"):
		return "library"
	case strings.Contains(fn, "anishathalye/porcupine"):
		return "worker"
	}
	return "std"
}

// newRaceReports returns the reports written since the last call.
func (c *c16) newRaceReports() []raceReport {
	if c.raceLog == "" {
		return nil
	}
	b, err := os.ReadFile(c.raceLog)
	if err != nil || int64(len(b)) <= c.raceOff {
		return nil
	}
	txt := string(b[c.raceOff:])
	c.raceOff = int64(len(b))
	var out []raceReport
	for _, blk := range strings.Split(txt, "WARNING: DATA RACE") {
		if !strings.Contains(blk, " by ") {
			continue
		}
		// access sections start at lines like "Write at 0x... by goroutine 7:" / "Previous read at ..."
		var rr raceReport
		rr.text = "WARNING: DATA RACE" + blk
		sec := -1
		for _, line := range strings.Split(blk, "\n") {
			t := strings.TrimSpace(line)
			switch {
			case (strings.HasPrefix(t, "Write at") || strings.HasPrefix(t, "Read at") || strings.HasPrefix(t, "Previous write at") || strings.HasPrefix(t, "Previous read at")) && strings.Contains(t, " by "):
				sec++
			case strings.HasPrefix(t, "Goroutine ") && strings.Contains(t, "created at"):
				sec = 99
			case sec >= 0 && sec < 2 && t != "" && !strings.HasPrefix(t, "/") && strings.Contains(t, "("):
				fn := t[:strings.LastIndex(t, "(")]
				o := frameOwner(fn)
				if o != "std" && rr.funcs[sec] == "" {
					rr.owners[sec], rr.funcs[sec] = o, strings.TrimPrefix(fn, "github.com/jsightapi/")
				}
				if o == "library" && rr.via[sec] == "" {
					rr.via[sec] = strings.TrimPrefix(fn, "github.com/jsightapi/")
				}
			}
		}
		out = append(out, rr)
	}
	return out
}

// raceViolation turns new race reports into a violation (library) or stops the
// worker (harness race: a bug of the simulator, never a finding).
func (c *c16) raceViolation(cs *Case) *Case {
	for _, rr := range c.newRaceReports() {
		c.st.RaceReportsSeen++
		if rr.owners[0] == "library" || rr.owners[1] == "library" {
			c.st.RaceReportsLibrary++
			fs := []string{rr.funcs[0], rr.funcs[1]}
			sort.Strings(fs)
			return violation(cs, "race", strings.Join(fs, " | "), trunc(rr.text, 2500))
		}
		if rr.via[0] != "" && rr.via[1] != "" && rr.owners[0] == "worker" && rr.owners[1] == "worker" {
			// both accesses are made by callbacks that the library runs while it holds (or should
			// hold) its lock: the library's locking is what fails to order them
			c.st.RaceReportsLibrary++
			fs := []string{"callback-in:" + rr.via[0], "callback-in:" + rr.via[1]}
			sort.Strings(fs)
			return violation(cs, "race", strings.Join(fs, " | "), trunc(rr.text, 2500))
		}
		fmt.Fprintf(os.Stderr, "worker: race report inside the harness (%v %v):\n%s\n", rr.owners, rr.funcs, trunc(rr.text, 3000))
		os.Exit(97)
	}
	return nil
}

// ------------------------------------------------------------------ cases

type w3op struct {
	Op      string `json:"op"`
	K       int    `json:"k"`
	V       int    `json:"v,omitempty"`
	FaultAt int    `json:"fault_at,omitempty"` // callback invocation (1-based) that fails; 0 = none
	Panic   bool   `json:"panic,omitempty"`    // the callback fault is a panic instead of an error
}

type c16extra struct {
	Projects   []Project `json:"companions,omitempty"` // W1: projects 1..n (project 0 is Case.Project)
	Readers    []string  `json:"readers,omitempty"`    // W2: what each reader goroutine does
	Collection string    `json:"collection,omitempty"`
	Clients    [][]w3op  `json:"ops,omitempty"` // W3: per client
	YieldSeed  uint64    `json:"yield_seed"`
	ColdPm     int       `json:"cold_permille"`
	StayPm     int       `json:"stay_permille"`
	Stall      int       `json:"stall"` // goroutine stalled for a window (-1 none)
	StallFrom  uint64    `json:"stall_from,omitempty"`
	StallTo    uint64    `json:"stall_to,omitempty"`
	PoolPolicy int       `json:"pool_policy"`
	PoolDrop   int       `json:"pool_drop,omitempty"`
	Cold       bool      `json:"cold,omitempty"`
}

func (c *c16) RunCase(seed uint64, idx int) []Case {
	var out []Case
	for _, cs := range c.DumpCase(seed, idx) {
		cs := cs
		if v := c.check(&cs, true); v != nil {
			out = append(out, *v)
		}
	}
	return out
}

func (c *c16) Replay(cs *Case) *Case { return c.check(cs, false) }

func (c *c16) schedParams(r *rng, ex *c16extra, nG int) {
	ex.YieldSeed = r.next()
	ex.ColdPm = r.n(21)
	ex.StayPm = []int{300, 600, 850, 950}[r.n(4)]
	ex.Stall = -1
	if r.chance(200) {
		ex.Stall = r.n(nG)
		ex.StallFrom = uint64(r.n(40))
		ex.StallTo = ex.StallFrom + uint64(20+r.n(400))
	}
	ex.PoolPolicy = r.n(5)
	if r.chance(250) {
		ex.PoolDrop = 150
	}
}

var w3ops = []string{"Set", "Set", "Set", "SetToTop", "Update", "Get", "GetValue", "Has", "Len", "Find", "Each", "EachReverse", "EachSafe", "Map", "MarshalJSON"}

func (c *c16) DumpCase(seed uint64, idx int) []Case {
	r := newRng(splitmix(seed, uint64(idx)))
	cs := Case{Prop: "C16", Seed: seed, Index: idx, Env: refEnv, Opts: Opts{FixedSeed: true, Entry: "file"}}
	ex := c16extra{}
	cp := loadCorpus()
	pick := func() Project {
		if r.chance(500) {
			// fixtures that need more than 3M steps alone (one 16 KB document needs 62M) are left to the
			// sequential checks: under the scheduler and the race detector they take minutes
			for tries := 0; tries < 8; tries++ {
				i := r.n(len(cp.roots))
				if lightFixture(i) {
					return *corpusProject(i)
				}
			}
		}
		cfg := randomCfg(r)
		switch r.n(10) {
		case 0:
			cfg.RuleFuzz = true // error paths of schema loading, next to valid projects with the same type names
			cfg.Types += 2
		case 1:
			cfg.BadTypes, cfg.BadEnums = 1+r.n(2), r.n(2)
		case 2:
			cfg.RecursiveMacros, cfg.UnusedPathParams = r.n(3), r.n(3)
		}
		d := generateDoc(r, cfg)
		single, multi, _ := cutProject(d, r, "/sim/proj/api", 3)
		if r.chance(600) {
			return single
		}
		return multi
	}
	switch {
	case idx < c.nW1 || idx >= c.nW1+c.nW2+c.nW3:
		cs.Kind = "w1"
		if idx >= c.nW1+c.nW2+c.nW3 {
			ex.Cold = true
		}
		n := 2 + r.n(5)
		if r.chance(20) {
			n = 8 + r.n(17) // "any number": a crowd of callers now and then
		}
		cs.Project = pick()
		for i := 1; i < n; i++ {
			if r.chance(300) {
				ex.Projects = append(ex.Projects, cs.Project) // the same project several times
			} else {
				ex.Projects = append(ex.Projects, pick())
			}
		}
		// Two scenarios drawn from a stream of their own (the main stream, and with it every other
		// case, stays as it is):
		r2 := newRng(splitmix(seed^0x5ca1ab1e, uint64(idx)))
		switch {
		case r2.chance(60):
			// one document with CR or CRLF line ends and Descriptions, handed to several callers as
			// one shared buffer
			cfg := randomCfg(r2)
			cfg.LineBreak = []string{"\r\n", "\r"}[r2.n(2)]
			cfg.Tags += 2
			d := generateDoc(r2, cfg)
			single, _, _ := cutProject(d, r2, "/sim/proj/api", 3)
			cs.Project = single
			ex.Projects = nil
			for i := 1; i < n && i < 6; i++ {
				ex.Projects = append(ex.Projects, single)
			}
		case r2.chance(60):
			// a valid document and its twin with edge-value rules (same type names), several of each
			cfg := randomCfg(r2)
			cfg.Types += 3
			st := *r2
			d := generateDoc(r2, cfg)
			cfg.RuleFuzz = true
			r3 := st
			d2 := generateDoc(&r3, cfg)
			good, _, _ := cutProject(d, r2, "/sim/proj/api", 3)
			bad, _, _ := cutProject(d2, r2, "/sim/proj/bad", 3)
			cs.Project = good
			ex.Projects = nil
			for i := 1; i < n && i < 8; i++ {
				if i%2 == 1 {
					ex.Projects = append(ex.Projects, bad)
				} else {
					ex.Projects = append(ex.Projects, good)
				}
			}
		}
		if r.chance(300) {
			cs.Opts.Entry = "path"
		}
		if r.chance(300) {
			// two ban options (solo results are computed with the same options, so whatever they
			// forbid is forbidden alone as well)
			cs.Opts.Banned = []int{r.n(nDirectiveKinds), r.n(nDirectiveKinds), r.n(nDirectiveKinds)}
			cs.Opts.SplitBans = true
		}
		c.schedParams(r, &ex, n)
	case idx < c.nW1+c.nW2:
		cs.Kind = "w2"
		// an accepted project
		for tries := 0; tries < 20; tries++ {
			cs.Project = pick()
			ref, _, _ := execute(&cs.Project, cs.Opts, refEnv, nil, 1, nil)
			if ref.Accepted {
				break
			}
		}
		n := 2 + r.n(7)
		if r.chance(20) {
			n = 12 + r.n(20)
		}
		kinds := []string{"ToJson", "ToJsonIndent", "Title", "Collections", "ToJson", "Objects"}
		for i := 0; i < n; i++ {
			ex.Readers = append(ex.Readers, kinds[r.n(len(kinds))])
		}
		c.schedParams(r, &ex, n)
	default:
		cs.Kind = "w3"
		ex.Collection = collectionNames[idx%len(collectionNames)]
		nc := 2 + r.n(3)
		val := 0
		for i := 0; i < nc; i++ {
			var ops []w3op
			for k := 1 + r.n(6); k > 0; k-- {
				val++
				o := w3op{Op: w3ops[r.n(len(w3ops))], K: r.n(3), V: val}
				switch o.Op {
				case "Each", "EachReverse", "Map", "Find", "Update":
					if r.chance(250) {
						o.FaultAt = 1 + r.n(3)
						o.Panic = r.chance(400)
					}
				}
				ops = append(ops, o)
			}
			ex.Clients = append(ex.Clients, ops)
		}
		c.schedParams(r, &ex, nc)
		ex.ColdPm = 0
	}
	cs.Extra = extraToMap(ex)
	return []Case{cs}
}

func extraToMap(ex c16extra) map[string]any {
	b, _ := json.Marshal(ex)
	var m map[string]any
	json.Unmarshal(b, &m)
	return m
}

func extraFromMap(m map[string]any) c16extra {
	b, _ := json.Marshal(m)
	var ex c16extra
	ex.Stall = -1
	json.Unmarshal(b, &ex)
	return ex
}

// ------------------------------------------------------------------ running under the scheduler

func (c *c16) startSim(cs *Case, ex *c16extra, seed uint64) {
	simrt.Active = true
	simrt.Reset(seed)
	if cs.Decisions != nil {
		simrt.Force(cs.Decisions)
	}
	simrt.SetMapPolicy(simrt.MapAsc)
	simrt.SetPoolPolicy(ex.PoolPolicy, ex.PoolDrop)
	simrt.SetClock(1_700_000_000, 1)
	curReadOrder = 0
	simrt.SetSchedPolicy(ex.StayPm, ex.Stall, ex.StallFrom, ex.StallTo)
	setYieldSites(&c.sites, ex.YieldSeed, ex.ColdPm)
	simrt.FS = nil
}

func (c *c16) endSim(record bool, workload string, nG int) ([]simrt.Decision, uint64) {
	clearYieldSites(&c.sites)
	dec, _ := simrt.Decisions()
	h := simrt.SwitchHash()
	eh, en := simrt.EventHash()
	traceFold(eh, en, h)
	if record {
		c.st.Exec++
		c.st.Goroutines += nG
		if nG > c.st.MaxG {
			c.st.MaxG = nG
		}
		key := hash64(workload) ^ h
		c.st.Interleavings[key] = true
		for _, d := range dec {
			if d.K == simrt.KSched && d.S >= 0 && d.C != 0 {
				c.st.Nontrivial[key] = true
				break
			}
		}
	}
	return dec, h
}

func (c *c16) check(cs *Case, record bool) *Case {
	ex := extraFromMap(cs.Extra)
	if ex.Cold && os.Getenv("SIM_COLD") == "" {
		return c.runCold(cs, record)
	}
	switch cs.Kind {
	case "w1":
		return c.checkW1(cs, &ex, record)
	case "w2":
		return c.checkW2(cs, &ex, record)
	case "w3":
		return c.checkW3(cs, &ex, record)
	}
	return nil
}

// runCold executes the case in a fresh process without warm-up, so that
// first-use initialisation happens inside the interleaving.
func (c *c16) runCold(cs *Case, record bool) *Case {
	b, _ := json.Marshal(cs)
	var out []byte
	var err error
	for attempt := 0; attempt < 3; attempt++ {
		cmd := exec.Command(os.Args[0], "coldcase")
		cmd.Stdin = strings.NewReader(string(b))
		cmd.Env = append(os.Environ(), "SIM_COLD=1")
		out, err = cmd.Output()
		if _, isExit := err.(*exec.ExitError); err == nil || isExit {
			break // ran (whatever its exit status); only failures to start are retried
		}
	}
	if record {
		c.st.Cold++
		c.st.Exec++
	}
	if ee, ok := err.(*exec.ExitError); ok && ee.ExitCode() == 66 && strings.Contains(string(out), "{") {
		err = nil // the race detector's exit code; the child has reported the race itself
	}
	if err != nil {
		code := -1
		if ee, ok := err.(*exec.ExitError); ok {
			code = ee.ExitCode()
			if code == 97 {
				fmt.Fprintf(os.Stderr, "worker: cold-start subprocess reported an infrastructure error: %s\n", trunc(string(ee.Stderr), 2000))
				os.Exit(97)
			}
			if code == 7 {
				return violation(cs, "deadlock", "deadlock", "cold-start run deadlocked")
			}
			return violation(cs, "fatal", "cold-start:"+fmt.Sprint(code), trunc(string(ee.Stderr), 1500))
		}
		fmt.Fprintln(os.Stderr, "worker: cannot run cold-start subprocess:", err)
		os.Exit(97)
	}
	lines := strings.Split(strings.TrimSpace(string(out)), "\n")
	var v *Case
	if json.Unmarshal([]byte(lines[len(lines)-1]), &v) != nil {
		fmt.Fprintln(os.Stderr, "worker: unparsable cold-start output")
		os.Exit(97)
	}
	return v
}

func cmdColdCase() {
	var cs Case
	must(json.NewDecoder(os.Stdin).Decode(&cs))
	simrt.OnDeadlock = func(int) { os.Exit(7) }
	r := getRunner("C16", "replay")
	v := r.Replay(&cs)
	b, _ := json.Marshal(v)
	fmt.Println(string(b))
}

// ---- W1 ------------------------------------------------------------------

func soloResult(p *Project, o Opts) Result {
	r, _, _ := execute(p, o, refEnv, nil, 1, nil)
	return r
}

func (c *c16) checkW1(cs *Case, ex *c16extra, record bool) *Case {
	ps := []*Project{&cs.Project}
	d0 := projectDigest(&cs.Project)
	for i := range ex.Projects {
		if projectDigest(&ex.Projects[i]) == d0 {
			ps = append(ps, &cs.Project) // the very same project again
			continue
		}
		q := rebase(&ex.Projects[i], fmt.Sprintf("/sim/w1g%d", i+1))
		ps = append(ps, &q)
	}
	// solo results (outside the simulation; in a cold process they are computed afterwards)
	solo := make([]Result, len(ps))
	if !ex.Cold {
		for i, p := range ps {
			solo[i] = soloResult(p, cs.Opts)
			if solo[i].Panic != "" {
				return nil // C01's business
			}
		}
	}
	c.startSim(cs, ex, cs.Seed+11)
	d := mountProject(ps[0], refEnv, nil)
	total := uint64(0)
	for _, p := range ps {
		for path := range p.Files {
			d.AddFile(path, p.content(path))
		}
		for _, dir := range p.Dirs {
			d.AddDir(dir)
		}
		total += uint64(p.totalBytes() + 200)
	}
	simrt.FS = d
	simrt.SetBudget(softFactor*total, hardFactor*total)
	res := make([]Result, len(ps))
	fns := make([]func(), len(ps))
	// one set of option values for all goroutines, as a server would keep it
	shared := cs.Opts.options()
	bufs := map[uint64][]byte{}
	for i := range ps {
		i := i
		content := ps[i].content(ps[i].absRoot())
		// identical roots under the same name share one buffer (a server caches the file it serves)
		key := hash64(ps[i].Root) ^ hash64(string(content))
		if b, ok := bufs[key]; ok {
			content = b
		} else {
			bufs[key] = content
		}
		fns[i] = func() { res[i] = runLibraryWith(ps[i].Root, content, shared, cs.Opts.Entry) }
	}
	panics := simrt.RunGoroutines(fns)
	simrt.SetBudget(^uint64(0), ^uint64(0))
	dec, _ := c.endSim(record, "w1:"+fmt.Sprint(projectDigest(ps[0]), len(ps)), len(ps))
	if record {
		c.st.W1++
	}
	fail := func(class, sig, detail string) *Case {
		v := violation(cs, class, sig, detail)
		v.Decisions = dec
		return v
	}
	if v := c.raceViolation(cs); v != nil {
		v.Decisions = dec
		return v
	}
	if n := simrt.HeldLocks(); n != 0 {
		return fail("lock-leaked", "parse", fmt.Sprintf("%d lock acquisition(s) were never released although every parse has returned", n))
	}
	if ex.Cold {
		for i, p := range ps {
			solo[i] = soloResult(p, cs.Opts)
		}
	}
	for i := range ps {
		if panics[i] != nil {
			return fail("crash-under-concurrency", normPanicMsg(fmt.Sprint(panics[i])), fmt.Sprintf("goroutine %d panicked: %v", i, panics[i]))
		}
		if res[i].Panic != "" && solo[i].Panic == "" {
			return fail("crash-under-concurrency", res[i].PanicSig, fmt.Sprintf("goroutine %d: %s (solo run is fine)", i, res[i].Panic))
		}
		if same, what := solo[i].Same(&res[i]); !same {
			return fail("interference", diffShape(what), fmt.Sprintf("result of goroutine %d of %d differs from its solo result in %s\n solo      : accepted=%v msg=%q\n concurrent: accepted=%v msg=%q\n solo json      : %s\n concurrent json: %s",
				i, len(ps), what, solo[i].Accepted, solo[i].Msg, res[i].Accepted, res[i].Msg, trunc(solo[i].JSON, 200), trunc(res[i].JSON, 200)))
		}
	}
	if record && len(c.st.Samples) < 2 {
		c.st.Samples = append(c.st.Samples, map[string]any{"workload": "w1", "goroutines": len(ps), "project0": ps[0].Name, "scheduling_decisions": len(dec), "first_decisions": firstN(dec, 25)})
	}
	return nil
}

func firstN(d []simrt.Decision, n int) []simrt.Decision {
	if len(d) > n {
		return d[:n]
	}
	return d
}

// ---- W2 ------------------------------------------------------------------

func (c *c16) checkW2(cs *Case, ex *c16extra, record bool) *Case {
	p := &cs.Project
	simrt.Active = true
	simrt.Reset(cs.Seed)
	simrt.SetMapPolicy(simrt.MapAsc)
	simrt.SetPoolPolicy(simrt.PoolMostRecent, 0)
	simrt.FS = mountProject(p, refEnv, nil)
	jc := core.NewJApiCore(schemafs.NewFile(p.Root, p.content(p.absRoot())), cs.Opts.options()...)
	if je := jc.ValidateJAPI(); je != nil {
		return nil
	}
	soloCat := jc.Catalog()
	// the readers get a second catalog of the same project that nobody has serialised yet:
	// state that the first serialisation creates lazily must be created under concurrency
	jc2 := core.NewJApiCore(schemafs.NewFile(p.Root, p.content(p.absRoot())), cs.Opts.options()...)
	if je := jc2.ValidateJAPI(); je != nil {
		return nil
	}
	cat := soloCat
	// solo outputs
	read := func(kind string) string {
		switch kind {
		case "ToJson":
			b, err := cat.ToJson()
			return string(b) + errStr(err)
		case "ToJsonIndent":
			b, err := cat.ToJsonIndent()
			return string(b) + errStr(err)
		case "Title":
			if cat.Info != nil {
				return cat.Info.Title
			}
			return ""
		case "Objects":
			return readObjects(cat)
		default:
			return readCollections(cat)
		}
	}
	solo := map[string]string{}
	for _, k := range ex.Readers {
		if _, ok := solo[k]; !ok {
			solo[k] = read(k)
		}
	}
	cat = jc2.Catalog()
	c.startSim(cs, ex, cs.Seed+12)
	simrt.FS = mountProject(p, refEnv, nil)
	outs := make([]string, len(ex.Readers))
	fns := make([]func(), len(ex.Readers))
	for i := range ex.Readers {
		i := i
		fns[i] = func() { outs[i] = read(ex.Readers[i]) }
	}
	panics := simrt.RunGoroutines(fns)
	dec, _ := c.endSim(record, "w2:"+fmt.Sprint(projectDigest(p), ex.Readers), len(fns))
	if record {
		c.st.W2++
	}
	if v := c.raceViolation(cs); v != nil {
		v.Decisions = dec
		return v
	}
	for i := range fns {
		if panics[i] != nil {
			v := violation(cs, "crash-under-concurrency", "reader:"+normPanicMsg(fmt.Sprint(panics[i])), fmt.Sprintf("reader %d (%s) panicked: %v", i, ex.Readers[i], panics[i]))
			v.Decisions = dec
			return v
		}
		if outs[i] != solo[ex.Readers[i]] {
			v := violation(cs, "interference", "reader:"+ex.Readers[i], fmt.Sprintf("output of concurrent reader %d (%s) differs from the solo output", i, ex.Readers[i]))
			v.Decisions = dec
			return v
		}
	}
	return nil
}

func errStr(err error) string {
	if err != nil {
		return " ERR:" + err.Error()
	}
	return ""
}

// readCollections reads a catalog through the read methods of its collections.
func readCollections(cat *catalog.Catalog) string {
	var sb strings.Builder
	fmt.Fprintf(&sb, "servers=%d;", cat.Servers.Len())
	_ = cat.Servers.Each(func(k string, v *catalog.Server) error {
		sb.WriteString(k + "=" + v.BaseUrl + ";")
		return nil
	})
	fmt.Fprintf(&sb, "types=%d;", cat.UserTypes.Len())
	cat.UserTypes.EachSafe(func(k string, v *catalog.UserType) {
		sb.WriteString(k + ":" + v.Annotation + ":" + v.Schema.Example + ";")
		if _, ok := cat.UserTypes.Get(k); !ok {
			sb.WriteString("!missing;")
		}
	})
	fmt.Fprintf(&sb, "enums=%d;", cat.UserEnums.Len())
	_ = cat.UserEnums.EachReverse(func(k string, v *catalog.UserRule) error {
		sb.WriteString(k + ":" + v.Annotation + ";")
		return nil
	})
	fmt.Fprintf(&sb, "interactions=%d;", cat.Interactions.Len())
	_ = cat.Interactions.Each(func(k catalog.InteractionID, v catalog.Interaction) error {
		sb.WriteString(k.String() + "@" + v.Path().String() + ";")
		if !cat.Interactions.Has(k) {
			sb.WriteString("!missing;")
		}
		return nil
	})
	fmt.Fprintf(&sb, "tags=%d;", cat.Tags.Len())
	if b, err := cat.Tags.MarshalJSON(); err == nil {
		sb.Write(b)
	}
	if it, ok := cat.UserTypes.Find(func(k string, v *catalog.UserType) bool { return v.Annotation != "" }); ok {
		sb.WriteString("first-annotated=" + it.Key + ";")
	}
	return sb.String()
}

// readObjects serialises the objects reachable from a catalog one by one (a caller that renders
// a page per interaction or per type): their own MarshalJSON/String/MarshalText methods run, not
// the catalog's.
func readObjects(cat *catalog.Catalog) string {
	var sb strings.Builder
	put := func(v any) {
		b, err := json.Marshal(v)
		sb.Write(b)
		sb.WriteString(errStr(err) + ";")
	}
	put(cat.Info)
	_ = cat.Interactions.Each(func(k catalog.InteractionID, v catalog.Interaction) error {
		sb.WriteString(k.String() + "|")
		if t, err := k.MarshalText(); err == nil {
			sb.Write(t)
		}
		put(v)
		return nil
	})
	cat.UserTypes.EachSafe(func(k string, v *catalog.UserType) {
		put(v)
		put(v.Schema)
	})
	_ = cat.UserEnums.Each(func(k string, v *catalog.UserRule) error {
		put(v)
		return nil
	})
	_ = cat.Tags.Each(func(k catalog.TagName, v *catalog.Tag) error {
		put(v)
		return nil
	})
	_ = cat.Servers.Each(func(k string, v *catalog.Server) error {
		put(v)
		return nil
	})
	return sb.String()
}

// ---- W3 ------------------------------------------------------------------

// omap adapts one collection type to integer keys and values.
type omap interface {
	Set(k, v int)
	SetToTop(k, v int)
	Update(k int, fn func(old int) int)
	Get(k int) (int, bool)
	GetValue(k int) int // -1 if absent
	Has(k int) bool
	Len() int
	Each(fn func(k, v int) error) error
	EachReverse(fn func(k, v int) error) error
	EachSafe(fn func(k, v int))
	Find(fn func(k, v int) bool) (int, int, bool)
	Map(fn func(k, v int) (int, error)) error
	MarshalKeys() ([]int, error)
}

func keyName(k int) string { return "k" + strconv.Itoa(k) }
func keyNum(s string) int {
	n, _ := strconv.Atoi(strings.TrimPrefix(strings.TrimPrefix(s, "@"), "k"))
	return n
}
func jsonKeys(b []byte, err error) ([]int, error) {
	if err != nil {
		return nil, err
	}
	dec := json.NewDecoder(strings.NewReader(string(b)))
	if _, err := dec.Token(); err != nil {
		return nil, err
	}
	var keys []int
	for dec.More() {
		t, err := dec.Token()
		if err != nil {
			return nil, err
		}
		ks, _ := t.(string)
		keys = append(keys, keyNum(ks[strings.LastIndex(ks, "k"):]))
		var skip json.RawMessage
		if err := dec.Decode(&skip); err != nil {
			return nil, err
		}
	}
	return keys, nil
}

type pair struct{ K, V int }

type w3out struct {
	OK   bool   `json:"ok,omitempty"`
	V    int    `json:"v,omitempty"`
	N    int    `json:"n,omitempty"`
	Snap []pair `json:"snap,omitempty"`
	Keys []int  `json:"keys,omitempty"`
	Err  bool   `json:"err,omitempty"`   // the call returned the injected error
	Pan  bool   `json:"panic,omitempty"` // the injected panic came back to the caller
}

type w3rec struct {
	client    int
	in        w3op
	out       w3out
	call, ret int64
}

var errInjected = fmt.Errorf("injected callback failure")

type injectedPanic struct{}

// doOp performs one operation on the collection.
func doOp(m omap, o w3op) (out w3out) {
	defer func() {
		if r := recover(); r != nil {
			if _, ok := r.(injectedPanic); ok {
				out.Pan = true
				return
			}
			panic(r)
		}
	}()
	calls := 0
	faulty := func() error {
		calls++
		if o.FaultAt > 0 && calls == o.FaultAt {
			if o.Panic {
				panic(injectedPanic{})
			}
			return errInjected
		}
		return nil
	}
	switch o.Op {
	case "Set":
		m.Set(o.K, o.V)
	case "SetToTop":
		m.SetToTop(o.K, o.V)
	case "Update":
		m.Update(o.K, func(old int) int {
			if err := faulty(); err != nil {
				return old // an Update callback cannot fail; it keeps the value
			}
			return old + 1000000*o.V // a real read-modify-write: an overwritten Update shows as a missing addend
		})
	case "Get":
		out.V, out.OK = m.Get(o.K)
	case "GetValue":
		out.V = m.GetValue(o.K)
	case "Has":
		out.OK = m.Has(o.K)
	case "Len":
		out.N = m.Len()
	case "Find":
		k, v, ok := m.Find(func(k, v int) bool {
			if err := faulty(); err != nil {
				return false
			}
			return k == o.K
		})
		if ok {
			out.OK, out.V, out.N = true, v, k
		}
	case "Each":
		err := m.Each(func(k, v int) error {
			if err := faulty(); err != nil {
				return err
			}
			out.Snap = append(out.Snap, pair{k, v})
			return nil
		})
		out.Err = err != nil
	case "EachReverse":
		err := m.EachReverse(func(k, v int) error {
			if err := faulty(); err != nil {
				return err
			}
			out.Snap = append(out.Snap, pair{k, v})
			return nil
		})
		out.Err = err != nil
	case "EachSafe":
		m.EachSafe(func(k, v int) { out.Snap = append(out.Snap, pair{k, v}) })
	case "Map":
		err := m.Map(func(k, v int) (int, error) {
			if err := faulty(); err != nil {
				return 0, err
			}
			return v + 1000*o.V, nil
		})
		out.Err = err != nil
	case "MarshalJSON":
		keys, err := m.MarshalKeys()
		out.Keys, out.Err = keys, err != nil
	}
	return out
}

// sequential model: order of keys + values, encoded as a string (comparable).
type mstate struct {
	order []int
	data  map[int]int
}

func decodeState(s string) mstate {
	st := mstate{data: map[int]int{}}
	if s == "" {
		return st
	}
	for _, kv := range strings.Split(s, ",") {
		var k, v int
		fmt.Sscanf(kv, "%d=%d", &k, &v)
		st.order = append(st.order, k)
		st.data[k] = v
	}
	return st
}

func (st mstate) encode() string {
	parts := make([]string, len(st.order))
	for i, k := range st.order {
		parts[i] = fmt.Sprintf("%d=%d", k, st.data[k])
	}
	return strings.Join(parts, ",")
}

func snapEq(a, b []pair) bool {
	if len(a) != len(b) {
		return false
	}
	for i := range a {
		if a[i] != b[i] {
			return false
		}
	}
	return true
}

// stepModel applies one operation to the sequential model and says whether the
// observed output is the one the model gives.
func stepModel(state string, o w3op, out w3out) (bool, string) {
	st := decodeState(state)
	_, has := st.data[o.K]
	snap := func(reverse bool, limit int) []pair {
		var s []pair
		for i := range st.order {
			k := st.order[i]
			if reverse {
				k = st.order[len(st.order)-1-i]
			}
			if limit > 0 && i+1 == limit {
				break
			}
			s = append(s, pair{k, st.data[k]})
		}
		return s
	}
	switch o.Op {
	case "Set":
		if !has {
			st.order = append(st.order, o.K)
		}
		st.data[o.K] = o.V
		return true, st.encode()
	case "SetToTop":
		if !has {
			st.order = append([]int{o.K}, st.order...)
		}
		st.data[o.K] = o.V
		return true, st.encode()
	case "Update":
		if has {
			switch {
			case o.FaultAt == 1 && o.Panic:
				if !out.Pan {
					return false, state
				}
			case o.FaultAt == 1:
			default:
				st.data[o.K] += 1000000 * o.V
			}
		}
		if (o.FaultAt == 1 && o.Panic && has) != out.Pan {
			return false, state
		}
		return true, st.encode()
	case "Get":
		v := st.data[o.K]
		return out.OK == has && (!has || out.V == v), state
	case "GetValue":
		if !has {
			return out.V == -1, state
		}
		return out.V == st.data[o.K], state
	case "Has":
		return out.OK == has, state
	case "Len":
		return out.N == len(st.order), state
	case "Find":
		// the callback sees entries in order; invocation FaultAt fails (returns false, or panics)
		for i, k := range st.order {
			if o.FaultAt > 0 && i+1 == o.FaultAt {
				if o.Panic {
					return out.Pan, state
				}
				continue
			}
			if k == o.K {
				return !out.Pan && out.OK && out.V == st.data[k] && out.N == k, state
			}
		}
		return !out.Pan && !out.OK, state
	case "Each", "EachReverse":
		rev := o.Op == "EachReverse"
		if o.FaultAt > 0 && o.FaultAt <= len(st.order) {
			want := snap(rev, o.FaultAt)
			if o.Panic {
				return out.Pan && snapEq(out.Snap, want), state
			}
			return out.Err && !out.Pan && snapEq(out.Snap, want), state
		}
		return !out.Err && !out.Pan && snapEq(out.Snap, snap(rev, 0)), state
	case "EachSafe":
		return snapEq(out.Snap, snap(false, 0)), state
	case "Map":
		for i, k := range st.order {
			if o.FaultAt > 0 && i+1 == o.FaultAt {
				if o.Panic {
					return out.Pan, st.encode()
				}
				return out.Err && !out.Pan, st.encode()
			}
			st.data[k] += 1000 * o.V
		}
		return !out.Err && !out.Pan, st.encode()
	case "MarshalJSON":
		if out.Err || len(out.Keys) != len(st.order) {
			return false, state
		}
		for i := range out.Keys {
			if out.Keys[i] != st.order[i] {
				return false, state
			}
		}
		return true, state
	}
	return false, state
}

type w3in struct {
	o w3op
}

var w3model = porcupine.Model{
	Init: func() interface{} { return "" },
	Step: func(state, input, output interface{}) (bool, interface{}) {
		ok, ns := stepModel(state.(string), input.(w3op), output.(w3out))
		return ok, ns
	},
	Equal: func(a, b interface{}) bool { return a.(string) == b.(string) },
	DescribeOperation: func(input, output interface{}) string {
		ib, _ := json.Marshal(input)
		ob, _ := json.Marshal(output)
		return string(ib) + " -> " + string(ob)
	},
}

func (c *c16) checkW3(cs *Case, ex *c16extra, record bool) *Case {
	m, isSet, isRB := newCollection(ex.Collection)
	if m == nil && !isSet && !isRB {
		return nil
	}
	if isSet || isRB {
		return c.checkW3Simple(cs, ex, record, isSet)
	}
	c.startSim(cs, ex, cs.Seed+13)
	recs := make([][]w3rec, len(ex.Clients))
	fns := make([]func(), len(ex.Clients))
	for ci := range ex.Clients {
		ci := ci
		fns[ci] = func() {
			for _, o := range ex.Clients[ci] {
				rec := w3rec{client: ci, in: o, call: simrt.Seq()}
				rec.out = doOp(m, o)
				rec.ret = simrt.Seq()
				recs[ci] = append(recs[ci], rec)
			}
		}
	}
	panics := simrt.RunGoroutines(fns)
	dec, _ := c.endSim(record, "w3:"+ex.Collection+fmt.Sprint(ex.Clients), len(fns))
	if record {
		c.st.W3++
		c.st.PerCollection[ex.Collection]++
	}
	fail := func(class, sig, detail string) *Case {
		v := violation(cs, class, sig, detail)
		v.Decisions = dec
		return v
	}
	if v := c.raceViolation(cs); v != nil {
		v.Decisions = dec
		return v
	}
	for i, pv := range panics {
		if pv != nil {
			return fail("crash-under-concurrency", ex.Collection+":"+normPanicMsg(fmt.Sprint(pv)), fmt.Sprintf("client %d panicked: %v", i, pv))
		}
	}
	if n := simrt.HeldLocks(); n != 0 {
		return fail("lock-leaked", ex.Collection, fmt.Sprintf("%d lock acquisition(s) of %s were never released although every client has returned (a failing callback?)", n, ex.Collection))
	}
	// a last observer after every client has returned: the final state itself must be explained by
	// the linearization (an overwritten read-modify-write that nobody read during the run shows here)
	{
		var last int64
		for ci := range recs {
			for _, r := range recs[ci] {
				if r.ret > last {
					last = r.ret
				}
			}
		}
		fin := w3rec{client: len(recs), in: w3op{Op: "EachSafe"}, call: last + 1, ret: last + 2}
		fin.out = doOp(m, fin.in)
		recs = append(recs, []w3rec{fin})
	}
	var hist []porcupine.Operation
	nops, overlap := 0, false
	var all []w3rec
	for ci := range recs {
		for _, r := range recs[ci] {
			hist = append(hist, porcupine.Operation{ClientId: ci, Input: r.in, Call: r.call, Output: r.out, Return: r.ret})
			all = append(all, r)
			nops++
			if r.in.FaultAt > 0 && record {
				c.st.CallbackFaults++
			}
		}
	}
	for i := range all {
		for j := range all {
			if i != j && all[i].client != all[j].client && all[i].call < all[j].ret && all[j].call < all[i].ret {
				overlap = true
			}
		}
	}
	if record {
		c.st.Ops += nops
		if overlap {
			c.st.OverlappingOps++
		}
		if ex.Stall >= 0 {
			c.st.Stalls++
		}
	}
	res := porcupine.CheckOperationsTimeout(w3model, hist, 20*time.Second)
	switch res {
	case porcupine.Illegal:
		var sb strings.Builder
		for _, r := range all {
			ib, _ := json.Marshal(r.in)
			ob, _ := json.Marshal(r.out)
			fmt.Fprintf(&sb, "client %d [%d,%d] %s -> %s\n", r.client, r.call, r.ret, ib, ob)
		}
		return fail("not-linearizable", ex.Collection, "history of "+ex.Collection+" has no linearization against the sequential ordered-map model:\n"+sb.String())
	case porcupine.Unknown:
		if record {
			c.st.PorcupineUnknown++
		}
	default:
		if record {
			c.st.PorcupineOK++
		}
	}
	// final-state invariants through the public API
	var finalSnap []pair
	m.EachSafe(func(k, v int) { finalSnap = append(finalSnap, pair{k, v}) })
	seen := map[int]bool{}
	for _, p := range finalSnap {
		if seen[p.K] {
			return fail("order-duplicate", ex.Collection, fmt.Sprintf("key %d appears twice in the iteration order: %v", p.K, finalSnap))
		}
		seen[p.K] = true
	}
	if m.Len() != len(finalSnap) {
		return fail("len-mismatch", ex.Collection, fmt.Sprintf("Len()=%d but iteration yields %d entries: %v", m.Len(), len(finalSnap), finalSnap))
	}
	for _, r := range all {
		if (r.in.Op == "Set" || r.in.Op == "SetToTop") && !seen[r.in.K] {
			return fail("lost-update", ex.Collection, fmt.Sprintf("key %d was set (acknowledged) but is absent from the final state %v", r.in.K, finalSnap))
		}
	}
	if record && len(c.st.Samples) < 5 && overlap {
		var ops []string
		for _, r := range all {
			ib, _ := json.Marshal(r.in)
			ob, _ := json.Marshal(r.out)
			ops = append(ops, fmt.Sprintf("client %d [%d,%d] %s -> %s", r.client, r.call, r.ret, ib, ob))
		}
		c.st.Samples = append(c.st.Samples, map[string]any{"workload": "w3", "collection": ex.Collection, "history": ops, "linearizable": res == porcupine.Ok})
	}
	return nil
}

// checkW3Simple covers StringSet (Add/Has/Len/Data) and RulesBuilder (Set/Append/Rules).
func (c *c16) checkW3Simple(cs *Case, ex *c16extra, record bool, isSet bool) *Case {
	set := catalog.NewStringSet()
	rb := catalog.VerifNewRulesBuilder(4)
	c.startSim(cs, ex, cs.Seed+14)
	type obs struct {
		adds []string
		bad  string
	}
	outs := make([]obs, len(ex.Clients))
	fns := make([]func(), len(ex.Clients))
	for ci := range ex.Clients {
		ci := ci
		fns[ci] = func() {
			for _, o := range ex.Clients[ci] {
				name := keyName(o.K)
				if isSet {
					switch o.Op {
					case "Set", "SetToTop", "Update", "Map":
						set.Add(name)
						outs[ci].adds = append(outs[ci].adds, name)
						if !set.Has(name) {
							outs[ci].bad = "Has(" + name + ") is false right after Add"
						}
					case "Len":
						if n := set.Len(); n < 0 || n > 3 {
							outs[ci].bad = fmt.Sprintf("Len()=%d with 3 possible keys", n)
						}
					default:
						d := set.Data()
						seen := map[string]bool{}
						for _, x := range d {
							if seen[x] {
								outs[ci].bad = fmt.Sprintf("Data() holds %q twice: %v", x, d)
							}
							seen[x] = true
						}
					}
				} else {
					switch o.Op {
					case "Set", "SetToTop", "Update", "Map":
						rb.Set(fmt.Sprintf("%s-%d", name, o.V), catalog.Rule{})
						outs[ci].adds = append(outs[ci].adds, fmt.Sprintf("%s-%d", name, o.V))
					default:
						rb.Append(catalog.Rule{Key: fmt.Sprintf("app-%d", o.V)})
						outs[ci].adds = append(outs[ci].adds, "")
					}
				}
			}
		}
	}
	panics := simrt.RunGoroutines(fns)
	dec, _ := c.endSim(record, "w3:"+ex.Collection+fmt.Sprint(ex.Clients), len(fns))
	if record {
		c.st.W3++
		c.st.PerCollection[ex.Collection]++
	}
	fail := func(class, sig, detail string) *Case {
		v := violation(cs, class, sig, detail)
		v.Decisions = dec
		return v
	}
	if v := c.raceViolation(cs); v != nil {
		v.Decisions = dec
		return v
	}
	for i, pv := range panics {
		if pv != nil {
			return fail("crash-under-concurrency", ex.Collection+":"+normPanicMsg(fmt.Sprint(pv)), fmt.Sprintf("client %d panicked: %v", i, pv))
		}
	}
	total := 0
	want := map[string]bool{}
	for _, o := range outs {
		if o.bad != "" {
			return fail("set-inconsistent", ex.Collection, o.bad)
		}
		total += len(o.adds)
		for _, a := range o.adds {
			if a != "" {
				want[a] = true
			}
		}
	}
	if isSet {
		d := set.Data()
		seen := map[string]bool{}
		for _, x := range d {
			if seen[x] {
				return fail("order-duplicate", ex.Collection, fmt.Sprintf("value %q twice in Data(): %v", x, d))
			}
			seen[x] = true
		}
		for w := range want {
			if !seen[w] || !set.Has(w) {
				return fail("lost-update", ex.Collection, fmt.Sprintf("value %q was added (acknowledged) but is absent: %v", w, d))
			}
		}
		if set.Len() != len(d) {
			return fail("len-mismatch", ex.Collection, fmt.Sprintf("Len()=%d, Data() has %d", set.Len(), len(d)))
		}
	} else {
		rr := rb.Rules()
		if rr.Len() != total {
			return fail("lost-update", ex.Collection, fmt.Sprintf("%d Set/Append calls were acknowledged but Rules() holds %d", total, rr.Len()))
		}
		for w := range want {
			if r, ok := rr.Get(w); !ok || r.Key != w {
				return fail("lost-update", ex.Collection, fmt.Sprintf("rule %q was set (acknowledged) but Get finds %v %v", w, r.Key, ok))
			}
		}
	}
	return nil
}

// ---- adapters ---------------------------------------------------------------

func newCollection(name string) (m omap, isSet, isRB bool) {
	switch name {
	case "Servers":
		return &serversAd{&catalog.Servers{}}, false, false
	case "Tags":
		return &tagsAd{&catalog.Tags{}}, false, false
	case "UserTypes":
		return &userTypesAd{&catalog.UserTypes{}}, false, false
	case "UserRules":
		return &userRulesAd{&catalog.UserRules{}}, false, false
	case "Interactions":
		return &interactionsAd{&catalog.Interactions{}}, false, false
	case "Directives":
		return &directivesAd{&directive.Directives{}}, false, false
	case "StringSet":
		return nil, true, false
	case "RulesBuilder":
		return nil, false, true
	}
	return nil, false, false
}

func itoa(v int) string { return strconv.Itoa(v) }
func atoiV(s string) int {
	n, err := strconv.Atoi(s)
	if err != nil {
		return -1
	}
	return n
}

type serversAd struct{ c *catalog.Servers }

func (a *serversAd) mk(v int) *catalog.Server { return &catalog.Server{BaseUrl: itoa(v)} }
func (a *serversAd) val(s *catalog.Server) int {
	if s == nil {
		return -1
	}
	return atoiV(s.BaseUrl)
}
func (a *serversAd) Set(k, v int)      { a.c.Set(keyName(k), a.mk(v)) }
func (a *serversAd) SetToTop(k, v int) { a.c.SetToTop(keyName(k), a.mk(v)) }
func (a *serversAd) Update(k int, fn func(int) int) {
	a.c.Update(keyName(k), func(s *catalog.Server) *catalog.Server { return a.mk(fn(a.val(s))) })
}
func (a *serversAd) Get(k int) (int, bool) { s, ok := a.c.Get(keyName(k)); return a.val(s), ok }
func (a *serversAd) GetValue(k int) int    { return a.val(a.c.GetValue(keyName(k))) }
func (a *serversAd) Has(k int) bool        { return a.c.Has(keyName(k)) }
func (a *serversAd) Len() int              { return a.c.Len() }
func (a *serversAd) Each(fn func(k, v int) error) error {
	return a.c.Each(func(k string, s *catalog.Server) error { return fn(keyNum(k), a.val(s)) })
}
func (a *serversAd) EachReverse(fn func(k, v int) error) error {
	return a.c.EachReverse(func(k string, s *catalog.Server) error { return fn(keyNum(k), a.val(s)) })
}
func (a *serversAd) EachSafe(fn func(k, v int)) {
	a.c.EachSafe(func(k string, s *catalog.Server) { fn(keyNum(k), a.val(s)) })
}
func (a *serversAd) Find(fn func(k, v int) bool) (int, int, bool) {
	it, ok := a.c.Find(func(k string, s *catalog.Server) bool { return fn(keyNum(k), a.val(s)) })
	if !ok {
		return 0, 0, false
	}
	return keyNum(it.Key), a.val(it.Value), true
}
func (a *serversAd) Map(fn func(k, v int) (int, error)) error {
	return a.c.Map(func(k string, s *catalog.Server) (*catalog.Server, error) {
		nv, err := fn(keyNum(k), a.val(s))
		if err != nil {
			return nil, err
		}
		return a.mk(nv), nil
	})
}
func (a *serversAd) MarshalKeys() ([]int, error) { return jsonKeys(a.c.MarshalJSON()) }

type userTypesAd struct{ c *catalog.UserTypes }

func (a *userTypesAd) mk(v int) *catalog.UserType {
	return &catalog.UserType{Annotation: itoa(v), Schema: catalog.NewSchema(notation.SchemaNotationAny)}
}
func (a *userTypesAd) val(s *catalog.UserType) int {
	if s == nil {
		return -1
	}
	return atoiV(s.Annotation)
}
func (a *userTypesAd) Set(k, v int)      { a.c.Set(keyName(k), a.mk(v)) }
func (a *userTypesAd) SetToTop(k, v int) { a.c.SetToTop(keyName(k), a.mk(v)) }
func (a *userTypesAd) Update(k int, fn func(int) int) {
	a.c.Update(keyName(k), func(s *catalog.UserType) *catalog.UserType { return a.mk(fn(a.val(s))) })
}
func (a *userTypesAd) Get(k int) (int, bool) { s, ok := a.c.Get(keyName(k)); return a.val(s), ok }
func (a *userTypesAd) GetValue(k int) int    { return a.val(a.c.GetValue(keyName(k))) }
func (a *userTypesAd) Has(k int) bool        { return a.c.Has(keyName(k)) }
func (a *userTypesAd) Len() int              { return a.c.Len() }
func (a *userTypesAd) Each(fn func(k, v int) error) error {
	return a.c.Each(func(k string, s *catalog.UserType) error { return fn(keyNum(k), a.val(s)) })
}
func (a *userTypesAd) EachReverse(fn func(k, v int) error) error {
	return a.c.EachReverse(func(k string, s *catalog.UserType) error { return fn(keyNum(k), a.val(s)) })
}
func (a *userTypesAd) EachSafe(fn func(k, v int)) {
	a.c.EachSafe(func(k string, s *catalog.UserType) { fn(keyNum(k), a.val(s)) })
}
func (a *userTypesAd) Find(fn func(k, v int) bool) (int, int, bool) {
	it, ok := a.c.Find(func(k string, s *catalog.UserType) bool { return fn(keyNum(k), a.val(s)) })
	if !ok {
		return 0, 0, false
	}
	return keyNum(it.Key), a.val(it.Value), true
}
func (a *userTypesAd) Map(fn func(k, v int) (int, error)) error {
	return a.c.Map(func(k string, s *catalog.UserType) (*catalog.UserType, error) {
		nv, err := fn(keyNum(k), a.val(s))
		if err != nil {
			return nil, err
		}
		return a.mk(nv), nil
	})
}
func (a *userTypesAd) MarshalKeys() ([]int, error) { return jsonKeys(a.c.MarshalJSON()) }

type userRulesAd struct{ c *catalog.UserRules }

func (a *userRulesAd) mk(v int) *catalog.UserRule { return &catalog.UserRule{Annotation: itoa(v)} }
func (a *userRulesAd) val(s *catalog.UserRule) int {
	if s == nil {
		return -1
	}
	return atoiV(s.Annotation)
}
func (a *userRulesAd) Set(k, v int)      { a.c.Set(keyName(k), a.mk(v)) }
func (a *userRulesAd) SetToTop(k, v int) { a.c.SetToTop(keyName(k), a.mk(v)) }
func (a *userRulesAd) Update(k int, fn func(int) int) {
	a.c.Update(keyName(k), func(s *catalog.UserRule) *catalog.UserRule { return a.mk(fn(a.val(s))) })
}
func (a *userRulesAd) Get(k int) (int, bool) { s, ok := a.c.Get(keyName(k)); return a.val(s), ok }
func (a *userRulesAd) GetValue(k int) int    { return a.val(a.c.GetValue(keyName(k))) }
func (a *userRulesAd) Has(k int) bool        { return a.c.Has(keyName(k)) }
func (a *userRulesAd) Len() int              { return a.c.Len() }
func (a *userRulesAd) Each(fn func(k, v int) error) error {
	return a.c.Each(func(k string, s *catalog.UserRule) error { return fn(keyNum(k), a.val(s)) })
}
func (a *userRulesAd) EachReverse(fn func(k, v int) error) error {
	return a.c.EachReverse(func(k string, s *catalog.UserRule) error { return fn(keyNum(k), a.val(s)) })
}
func (a *userRulesAd) EachSafe(fn func(k, v int)) {
	a.c.EachSafe(func(k string, s *catalog.UserRule) { fn(keyNum(k), a.val(s)) })
}
func (a *userRulesAd) Find(fn func(k, v int) bool) (int, int, bool) {
	it, ok := a.c.Find(func(k string, s *catalog.UserRule) bool { return fn(keyNum(k), a.val(s)) })
	if !ok {
		return 0, 0, false
	}
	return keyNum(it.Key), a.val(it.Value), true
}
func (a *userRulesAd) Map(fn func(k, v int) (int, error)) error {
	return a.c.Map(func(k string, s *catalog.UserRule) (*catalog.UserRule, error) {
		nv, err := fn(keyNum(k), a.val(s))
		if err != nil {
			return nil, err
		}
		return a.mk(nv), nil
	})
}
func (a *userRulesAd) MarshalKeys() ([]int, error) { return jsonKeys(a.c.MarshalJSON()) }

type tagsAd struct{ c *catalog.Tags }

func (a *tagsAd) key(k int) catalog.TagName { return catalog.TagName("@" + keyName(k)) }
func (a *tagsAd) mk(v int) *catalog.Tag     { return catalog.NewTag("@t", itoa(v)) }
func (a *tagsAd) val(s *catalog.Tag) int {
	if s == nil {
		return -1
	}
	return atoiV(s.Title)
}
func (a *tagsAd) Set(k, v int)      { a.c.Set(a.key(k), a.mk(v)) }
func (a *tagsAd) SetToTop(k, v int) { a.c.SetToTop(a.key(k), a.mk(v)) }
func (a *tagsAd) Update(k int, fn func(int) int) {
	a.c.Update(a.key(k), func(s *catalog.Tag) *catalog.Tag { return a.mk(fn(a.val(s))) })
}
func (a *tagsAd) Get(k int) (int, bool) { s, ok := a.c.Get(a.key(k)); return a.val(s), ok }
func (a *tagsAd) GetValue(k int) int    { return a.val(a.c.GetValue(a.key(k))) }
func (a *tagsAd) Has(k int) bool        { return a.c.Has(a.key(k)) }
func (a *tagsAd) Len() int              { return a.c.Len() }
func (a *tagsAd) Each(fn func(k, v int) error) error {
	return a.c.Each(func(k catalog.TagName, s *catalog.Tag) error { return fn(keyNum(string(k)), a.val(s)) })
}
func (a *tagsAd) EachReverse(fn func(k, v int) error) error {
	return a.c.EachReverse(func(k catalog.TagName, s *catalog.Tag) error { return fn(keyNum(string(k)), a.val(s)) })
}
func (a *tagsAd) EachSafe(fn func(k, v int)) {
	a.c.EachSafe(func(k catalog.TagName, s *catalog.Tag) { fn(keyNum(string(k)), a.val(s)) })
}
func (a *tagsAd) Find(fn func(k, v int) bool) (int, int, bool) {
	it, ok := a.c.Find(func(k catalog.TagName, s *catalog.Tag) bool { return fn(keyNum(string(k)), a.val(s)) })
	if !ok {
		return 0, 0, false
	}
	return keyNum(string(it.Key)), a.val(it.Value), true
}
func (a *tagsAd) Map(fn func(k, v int) (int, error)) error {
	return a.c.Map(func(k catalog.TagName, s *catalog.Tag) (*catalog.Tag, error) {
		nv, err := fn(keyNum(string(k)), a.val(s))
		if err != nil {
			return nil, err
		}
		return a.mk(nv), nil
	})
}
func (a *tagsAd) MarshalKeys() ([]int, error) { return jsonKeys(a.c.MarshalJSON()) }

type directivesAd struct{ c *directive.Directives }

func (a *directivesAd) mk(v int) *directive.Directive {
	d := directive.New(directive.Type, directive.Coords{})
	d.Annotation = itoa(v)
	return d
}
func (a *directivesAd) val(s *directive.Directive) int {
	if s == nil {
		return -1
	}
	return atoiV(s.Annotation)
}
func (a *directivesAd) Set(k, v int)      { a.c.Set(keyName(k), a.mk(v)) }
func (a *directivesAd) SetToTop(k, v int) { a.c.SetToTop(keyName(k), a.mk(v)) }
func (a *directivesAd) Update(k int, fn func(int) int) {
	a.c.Update(keyName(k), func(s *directive.Directive) *directive.Directive { return a.mk(fn(a.val(s))) })
}
func (a *directivesAd) Get(k int) (int, bool) { s, ok := a.c.Get(keyName(k)); return a.val(s), ok }
func (a *directivesAd) GetValue(k int) int    { return a.val(a.c.GetValue(keyName(k))) }
func (a *directivesAd) Has(k int) bool        { return a.c.Has(keyName(k)) }
func (a *directivesAd) Len() int              { return a.c.Len() }
func (a *directivesAd) Each(fn func(k, v int) error) error {
	return a.c.Each(func(k string, s *directive.Directive) error { return fn(keyNum(k), a.val(s)) })
}
func (a *directivesAd) EachReverse(fn func(k, v int) error) error {
	return a.c.EachReverse(func(k string, s *directive.Directive) error { return fn(keyNum(k), a.val(s)) })
}
func (a *directivesAd) EachSafe(fn func(k, v int)) {
	a.c.EachSafe(func(k string, s *directive.Directive) { fn(keyNum(k), a.val(s)) })
}
func (a *directivesAd) Find(fn func(k, v int) bool) (int, int, bool) {
	it, ok := a.c.Find(func(k string, s *directive.Directive) bool { return fn(keyNum(k), a.val(s)) })
	if !ok {
		return 0, 0, false
	}
	return keyNum(it.Key), a.val(it.Value), true
}
func (a *directivesAd) Map(fn func(k, v int) (int, error)) error {
	return a.c.Map(func(k string, s *directive.Directive) (*directive.Directive, error) {
		nv, err := fn(keyNum(k), a.val(s))
		if err != nil {
			return nil, err
		}
		return a.mk(nv), nil
	})
}

// Directives' JSON form is not a key-ordered object of simple values; iterate instead.
func (a *directivesAd) MarshalKeys() ([]int, error) {
	var keys []int
	a.c.EachSafe(func(k string, _ *directive.Directive) { keys = append(keys, keyNum(k)) })
	return keys, nil
}

type interactionsAd struct{ c *catalog.Interactions }

type testIID struct{ k int }

func (t testIID) Protocol() catalog.Protocol   { return catalog.HTTP }
func (t testIID) Path() catalog.Path           { return catalog.Path("/" + keyName(t.k)) }
func (t testIID) String() string               { return "http GET /" + keyName(t.k) }
func (t testIID) MarshalText() ([]byte, error) { return []byte(t.String()), nil }

func (a *interactionsAd) key(k int) catalog.InteractionID { return testIID{k} }
func (a *interactionsAd) mk(v int) catalog.Interaction {
	return &catalog.HTTPInteraction{Annotation: stringPtr(itoa(v)), HttpMethod: catalog.GET}
}
func stringPtr(s string) *string { return &s }
func (a *interactionsAd) val(s catalog.Interaction) int {
	h, ok := s.(*catalog.HTTPInteraction)
	if !ok || h == nil || h.Annotation == nil {
		return -1
	}
	return atoiV(*h.Annotation)
}
func (a *interactionsAd) Set(k, v int)      { a.c.Set(a.key(k), a.mk(v)) }
func (a *interactionsAd) SetToTop(k, v int) { a.c.SetToTop(a.key(k), a.mk(v)) }
func (a *interactionsAd) Update(k int, fn func(int) int) {
	a.c.Update(a.key(k), func(s catalog.Interaction) catalog.Interaction { return a.mk(fn(a.val(s))) })
}
func (a *interactionsAd) Get(k int) (int, bool) { s, ok := a.c.Get(a.key(k)); return a.val(s), ok }
func (a *interactionsAd) GetValue(k int) int    { return a.val(a.c.GetValue(a.key(k))) }
func (a *interactionsAd) Has(k int) bool        { return a.c.Has(a.key(k)) }
func (a *interactionsAd) Len() int              { return a.c.Len() }
func (a *interactionsAd) kn(k catalog.InteractionID) int {
	return keyNum(strings.TrimPrefix(k.Path().String(), "/"))
}
func (a *interactionsAd) Each(fn func(k, v int) error) error {
	return a.c.Each(func(k catalog.InteractionID, s catalog.Interaction) error { return fn(a.kn(k), a.val(s)) })
}
func (a *interactionsAd) EachReverse(fn func(k, v int) error) error {
	return a.c.EachReverse(func(k catalog.InteractionID, s catalog.Interaction) error { return fn(a.kn(k), a.val(s)) })
}
func (a *interactionsAd) EachSafe(fn func(k, v int)) {
	a.c.EachSafe(func(k catalog.InteractionID, s catalog.Interaction) { fn(a.kn(k), a.val(s)) })
}
func (a *interactionsAd) Find(fn func(k, v int) bool) (int, int, bool) {
	it, ok := a.c.Find(func(k catalog.InteractionID, s catalog.Interaction) bool { return fn(a.kn(k), a.val(s)) })
	if !ok {
		return 0, 0, false
	}
	return a.kn(it.Key), a.val(it.Value), true
}
func (a *interactionsAd) Map(fn func(k, v int) (int, error)) error {
	return a.c.Map(func(k catalog.InteractionID, s catalog.Interaction) (catalog.Interaction, error) {
		nv, err := fn(a.kn(k), a.val(s))
		if err != nil {
			return nil, err
		}
		return a.mk(nv), nil
	})
}
func (a *interactionsAd) MarshalKeys() ([]int, error) { return jsonKeys(a.c.MarshalJSON()) }

var fixtureTicks = map[int]uint64{}

func lightFixture(i int) bool {
	t, ok := fixtureTicks[i]
	if !ok {
		r, _, _ := execute(corpusProject(i), Opts{FixedSeed: true}, refEnv, nil, 1, nil)
		t = r.Ticks
		fixtureTicks[i] = t
	}
	return t < 3_000_000
}

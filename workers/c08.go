package main

import (
	"fmt"
	"path/filepath"
	"strings"

	simrt "verif.local/simrt"
)

// C08 — INCLUDE: textual inclusion, cycle-free, confined to the project directory.

type c08 struct {
	tier  string
	nCut  int
	nFS   int
	nCyc  int
	nName int // chunks of names
	names []string

	st struct {
		Exec, Cuts, CutDocsAccepted, CutDocsRejected, MultiCutFiles, ReusedFiles, CorpusCutDocs int
		FSStates, FSFaultRuns                                                                   int
		Fired                                                                                   [simrt.NumFaultKinds]int
		Toctou, DepthGE2                                                                        int
		Cycles, JsightInInclude                                                                 int
		Names, NamesRejected, NamesAccepted, StatsOutside, OpensInside                          int
		Distinct                                                                                map[uint64]bool
		Samples                                                                                 []any
	}
}

const nameAlphabet = "./\\a\""

var nameTokens = []string{".", "..", "/", "a", "%2e", "%2E", "%2f", "%2F", "%5c", "%252e", "%c0%ae", "%00",
	"\u2024", "\uff0e", "\uff0f", "\u2215", "~", "$HOME", "${PWD}", "+"}

func init() {
	runners["C08"] = func(tier string) runner {
		c := &c08{tier: tier}
		L := 5
		c.nCut, c.nFS, c.nCyc = 4000, 3000, 200
		if tier == "thorough" {
			L = 8
			c.nCut, c.nFS, c.nCyc = 600000, 400000, 5000
		}
		// all names over the alphabet up to length L
		var rec func(prefix string, left int)
		rec = func(prefix string, left int) {
			if prefix != "" {
				c.names = append(c.names, prefix)
			}
			if left == 0 {
				return
			}
			for _, ch := range nameAlphabet {
				rec(prefix+string(ch), left-1)
			}
		}
		rec("", L)
		// ... and all names of up to T tokens from a dictionary of other spellings of dot, slash and
		// backslash that some layer between the INCLUDE line and the disk might decode or expand
		T := 3
		if tier == "thorough" {
			T = 4
		}
		have := map[string]bool{}
		for _, n := range c.names {
			have[n] = true
		}
		var rec2 func(prefix string, left int)
		rec2 = func(prefix string, left int) {
			if prefix != "" && !have[prefix] {
				have[prefix] = true
				c.names = append(c.names, prefix)
			}
			if left == 0 {
				return
			}
			for _, tok := range nameTokens {
				rec2(prefix+tok, left-1)
			}
		}
		rec2("", T)
		c.nName = (len(c.names) + nameChunk - 1) / nameChunk
		c.st.Distinct = map[uint64]bool{}
		return c
	}
}

const nameChunk = 128

func (c *c08) NumCases(string) int { return c.nCut + c.nFS + c.nCyc + c.nName }

func (c *c08) Stats() map[string]any {
	fired := map[string]int{}
	for k, n := range c.st.Fired {
		if n > 0 {
			fired[simrt.FaultNames[k]] = n
		}
	}
	dist := distinctList(c.st.Distinct)
	return map[string]any{
		"executions": c.st.Exec, "cuts": c.st.Cuts, "cut_docs_accepted": c.st.CutDocsAccepted, "cut_docs_rejected": c.st.CutDocsRejected,
		"multi_cut_files": c.st.MultiCutFiles, "cut_docs_from_fixture_corpus": c.st.CorpusCutDocs, "fs_states": c.st.FSStates, "fs_fault_runs": c.st.FSFaultRuns, "faults_fired": fired,
		"probe_toctou_split": c.st.Toctou, "probe_fault_at_depth_ge2": c.st.DepthGE2, "cycles": c.st.Cycles, "empty_run_includes": genStats.EmptyIncludes, "cut_files_without_final_line_break": genStats.NoFinalBreak, "include_chains": genStats.Chains, "max_include_chain": genStats.MaxChain,
		"jsight_in_include": c.st.JsightInInclude, "names": c.st.Names, "names_rejected": c.st.NamesRejected,
		"names_accepted": c.st.NamesAccepted, "stats_outside_tree": c.st.StatsOutside, "opens_inside_tree": c.st.OpensInside,
		"distinct": dist, "samples": c.st.Samples,
	}
}

var refEnv = Env{MapPolicy: simrt.MapAsc, PoolPolicy: simrt.PoolMostRecent}

func (c *c08) exec(p *Project, o Opts, env Env, plan []simrt.PlannedFault, seed uint64) (Result, *simrt.Disk) {
	c.st.Exec++
	r, d, _ := execute(p, o, env, plan, seed, nil)
	for k, n := range d.Fired {
		c.st.Fired[k] += n
	}
	c.st.Toctou += d.ToctouSplit
	return r, d
}

func (c *c08) RunCase(seed uint64, idx int) []Case {
	cs := c.DumpCase(seed, idx)
	var out []Case
	for i := range cs {
		if v := c.check(&cs[i], true); v != nil {
			out = append(out, *v)
		}
	}
	return out
}

func (c *c08) Replay(cs *Case) *Case { return c.check(cs, false) }

// DumpCase derives the cases that index idx denotes (without running them).
func (c *c08) DumpCase(seed uint64, idx int) []Case {
	r := newRng(splitmix(seed, uint64(idx)))
	base := Case{Prop: "C08", Seed: seed, Index: idx, Opts: Opts{FixedSeed: true}, Env: refEnv}
	switch {
	case idx < c.nCut:
		base.Kind = "cut"
		if idx%4 == 3 {
			// a hand-written fixture, cut at runs found with the library's own lexemes and context rules
			cp := loadCorpus()
			for tries := 0; tries < 30; tries++ {
				root := cp.roots[r.n(len(cp.roots))]
				text := string(cp.files[root])
				runs, ok := corpusRuns(text)
				if !ok {
					continue
				}
				_, multi, n := cutText(text, runs, r, "/sim/proj/api", 4)
				if n == 0 {
					continue
				}
				base.Project = multi
				base.Project.Name = strings.TrimPrefix(root, corpusPrefix+"/")
				base.Extra = map[string]any{"single": text, "corpus": true}
				return []Case{base}
			}
		}
		cfg := randomCfg(r)
		cfg.Huge = idx%97 == 13 // a few documents carry a > 1 MiB block comment that may be cut into a file
		d := generateDoc(r, cfg)
		_, multi, _ := cutProject(d, r, "/sim/proj/api", 4)
		base.Project = multi
		base.Extra = map[string]any{"single": d.Render()}
		if r.chance(500) {
			base.Opts.Entry = "file"
		}
		respellRoot(&base.Project, r)
		return []Case{base}
	case idx < c.nCut+c.nFS:
		base.Kind = "fs"
		// a multi-file project: corpus include fixtures or a generated cut project
		var p Project
		if r.chance(350) {
			p = *c.includeFixture(r)
		} else {
			d := generateDoc(r, randomCfg(r))
			for tries := 0; tries < 5; tries++ {
				var n int
				_, p, n = cutProject(d, r, "/sim/proj/api", 4)
				if n > 0 {
					break
				}
			}
		}
		base.Project = p
		base.Extra = map[string]any{"mode": r.n(3), "pick": r.n(1 << 20), "kind": r.n(1 << 20)}
		return []Case{base}
	case idx < c.nCut+c.nFS+c.nCyc:
		base.Kind = "cycle"
		n := 1 + r.n(4)
		p := Project{Root: "/sim/proj/c/main.jst", Cwd: "/sim/cwd"}
		entry := r.n(n) // the root includes file `entry`; files include each other in a ring
		jsightInside := r.chance(200)
		p.set(p.Root, []byte(fmt.Sprintf("JSIGHT 0.3\n\nINCLUDE f%d.jst\n\nGET /x\n  200 any\n", entry)))
		for i := 0; i < n; i++ {
			body := fmt.Sprintf("TYPE @t%d\n  {\"a\": %d}\n\nINCLUDE f%d.jst\n", i, i, (i+1)%n)
			if jsightInside && i == entry {
				body = "JSIGHT 0.3\n\nTYPE @x\n  {\"a\": 1}\n"
			}
			p.set(fmt.Sprintf("/sim/proj/c/f%d.jst", i), []byte(body))
		}
		if !jsightInside && r.chance(200) {
			// cycle through the root file itself
			p.set(fmt.Sprintf("/sim/proj/c/f%d.jst", (entry+n-1)%n), []byte("TYPE @back\n  {\"a\": 1}\n\nINCLUDE main.jst\n"))
		}
		base.Project = p
		base.Extra = map[string]any{"jsight_inside": jsightInside}
		if r.chance(500) {
			base.Opts.Entry = "file"
		}
		return []Case{base}
	default:
		ci := idx - (c.nCut + c.nFS + c.nCyc)
		var out []Case
		for k := ci * nameChunk; k < (ci+1)*nameChunk && k < len(c.names); k++ {
			for variant := 0; variant < 4; variant++ {
				cs := base
				cs.Kind = "name"
				cs.Env.Universal = true
				cs.Project = nameProject(c.names[k], variant&1 == 1, variant&2 == 2)
				cs.Extra = map[string]any{"name": c.names[k], "quoted": variant&1 == 1, "nested": variant&2 == 2}
				out = append(out, cs)
			}
		}
		return out
	}
}

func nameProject(name string, quoted, nested bool) Project {
	p := Project{Root: "/sim/proj/sub/main.jst", Cwd: "/sim/cwd"}
	inc := "INCLUDE " + name
	if quoted {
		inc = "INCLUDE \"" + name + "\""
	}
	if nested {
		p.set(p.Root, []byte("JSIGHT 0.3\n\nINCLUDE deep/inner.jst\n"))
		p.set("/sim/proj/sub/deep/inner.jst", []byte("GET /n\n  200 any\n\n"+inc+"\n"))
	} else {
		p.set(p.Root, []byte("JSIGHT 0.3\n\n"+inc+"\n"))
	}
	return p
}

var includeFixtures []int

func (c *c08) includeFixture(r *rng) *Project {
	cp := loadCorpus()
	if includeFixtures == nil {
		for i, root := range cp.roots {
			if strings.Contains(string(cp.files[root]), "INCLUDE") {
				includeFixtures = append(includeFixtures, i)
			}
		}
	}
	return corpusProject(includeFixtures[r.n(len(includeFixtures))])
}

func violation(cs *Case, class, sig, detail string) *Case {
	v := *cs
	v.Class, v.Signature, v.Detail = class, sig, trunc(detail, 600)
	return &v
}

func insideDir(path, dir string) bool {
	path = filepath.Clean(path)
	dir = filepath.Clean(dir)
	return strings.HasPrefix(path, dir+"/")
}

// mustRejectName: the property's list — absolute, a '.' or '..' path component, a backslash.
func mustRejectName(name string) (bool, string) {
	if strings.HasPrefix(name, "/") {
		return true, "absolute"
	}
	if strings.Contains(name, "\\") {
		return true, "backslash"
	}
	for _, comp := range strings.Split(name, "/") {
		if comp == "." {
			return true, "dot-component"
		}
		if comp == ".." {
			return true, "dotdot-component"
		}
	}
	return false, ""
}

func (c *c08) note(key string) { c.st.Distinct[hash64(key)] = true }

func (c *c08) check(cs *Case, record bool) *Case {
	switch cs.Kind {
	case "cut":
		return c.checkCut(cs, record)
	case "fs":
		return c.checkFS(cs, record)
	case "cycle":
		return c.checkCycle(cs, record)
	case "name":
		return c.checkName(cs, record)
	}
	return nil
}

func crashViolation(cs *Case, r *Result) *Case {
	if r.Panic == "" {
		return nil
	}
	class := "crash"
	if r.PanicKind == "budget" {
		class = "nontermination"
	}
	return violation(cs, class, r.PanicSig, "stage="+r.Stage+" panic="+r.Panic)
}

func (c *c08) checkCut(cs *Case, record bool) *Case {
	singleText, _ := cs.Extra["single"].(string)
	single := Project{Root: cs.Project.Root, Cwd: cs.Project.Cwd}
	single.set(cs.Project.absRoot(), []byte(singleText))
	ref, _ := c.exec(&single, cs.Opts, cs.Env, nil, cs.Seed)
	got, disk := c.exec(&cs.Project, cs.Opts, cs.Env, nil, cs.Seed)
	if record {
		nfiles := len(cs.Project.Files)
		c.st.Cuts += nfiles - 1
		if nfiles > 2 {
			c.st.MultiCutFiles++
		}
		if cb, _ := cs.Extra["corpus"].(bool); cb {
			c.st.CorpusCutDocs++
		}
		if ref.Accepted {
			c.st.CutDocsAccepted++
		} else {
			c.st.CutDocsRejected++
		}
		if nfiles > 1 {
			c.note(fmt.Sprintf("cut:%s:%d:%d", ref.digest(), nfiles, len(disk.Log)))
		}
		if len(c.st.Samples) < 2 && nfiles > 2 {
			c.st.Samples = append(c.st.Samples, map[string]any{"kind": "cut", "files": projectText(&cs.Project), "accepted": ref.Accepted})
		}
	}
	if v := crashViolation(cs, &ref); v != nil {
		// a crash of the un-cut document is not an INCLUDE matter; C01 owns it
		return nil
	}
	if v := crashViolation(cs, &got); v != nil {
		return v
	}
	if ref.Accepted != got.Accepted {
		return violation(cs, "cut-mismatch", "verdict", fmt.Sprintf("single accepted=%v (%s) cut accepted=%v (%s)", ref.Accepted, ref.Msg, got.Accepted, got.Msg))
	}
	if ref.Accepted {
		if ref.JSON != got.JSON {
			return violation(cs, "cut-mismatch", "json"+firstJSONDiff(ref.JSON, got.JSON), "catalog differs after cutting into files")
		}
		if ref.JSONIndent != got.JSONIndent || ref.Title != got.Title {
			return violation(cs, "cut-mismatch", "json-indent-or-title", "")
		}
	}
	// confinement on ordinary disks too
	if v := c.confined(cs, disk, filepath.Dir(cs.Project.absRoot())); v != nil {
		return v
	}
	return nil
}

func projectText(p *Project) map[string]string {
	out := map[string]string{}
	for path := range p.Files {
		out[path] = string(p.content(path))
	}
	return out
}

// confined: every open/read is inside the project root directory's tree, and
// inside the tree of the file that included it (checked per event against the
// innermost directory that can be the includer: we use the project directory,
// and for the name enumeration the exact including directory).
func (c *c08) confined(cs *Case, d *simrt.Disk, dir string) *Case {
	for _, e := range d.Log {
		ap := e.Path
		if !filepath.IsAbs(ap) {
			ap = filepath.Join(cs.Project.cwd(), ap)
		}
		ap = filepath.Clean(ap)
		switch e.Op {
		case "readfile", "open", "readdir", "openfile-write":
			if ap == cs.Project.absRoot() {
				continue
			}
			if !insideDir(ap, dir) {
				return violation(cs, "escape", e.Op+":"+pathShape(ap, dir), fmt.Sprintf("%s %q is outside %q", e.Op, e.Path, dir))
			}
			c.st.OpensInside++
		case "stat", "lstat":
			if !insideDir(ap, dir) && ap != filepath.Clean(dir) {
				c.st.StatsOutside++
			}
		}
	}
	return nil
}

func pathShape(p, dir string) string {
	rel, err := filepath.Rel(dir, p)
	if err != nil {
		return "unrelated"
	}
	if strings.HasPrefix(rel, "..") {
		return "parent"
	}
	return "other"
}

func (c *c08) checkFS(cs *Case, record bool) *Case {
	p := &cs.Project
	ref, refDisk := c.exec(p, cs.Opts, cs.Env, nil, cs.Seed)
	if ref.Panic != "" {
		return nil // C01's
	}
	// the include-related calls of the reference run
	type call struct {
		idx   int
		op    string
		path  string
		depth int
	}
	var calls []call
	rootAbs := p.absRoot()
	for i, e := range refDisk.Log {
		if e.Op != "stat" && !isReadOp(e.Op) {
			continue
		}
		ap := filepath.Clean(e.Path)
		if ap == rootAbs {
			continue
		}
		rel, _ := filepath.Rel(filepath.Dir(rootAbs), ap)
		calls = append(calls, call{idx: i, op: e.Op, path: ap, depth: strings.Count(rel, "/")})
	}
	if len(calls) == 0 {
		return nil
	}
	mode, _ := toInt(cs.Extra["mode"])
	pick, _ := toInt(cs.Extra["pick"])
	kindSel, _ := toInt(cs.Extra["kind"])
	target := calls[pick%len(calls)]
	var plan []simrt.PlannedFault
	q := p.clone()
	label := ""
	switch mode {
	case 0: // file-system state: the target is absent / a directory / empty
		switch kindSel % 5 {
		case 0:
			delete(q.Files, target.path)
			label = "state-absent"
		case 1:
			delete(q.Files, target.path)
			q.Dirs = append(q.Dirs, target.path)
			label = "state-directory"
		case 2:
			q.set(target.path, nil)
			label = "state-empty"
		case 3:
			// a FIFO or /proc-like file: stat says size 0, reading delivers the text
			if _, exists := q.Files[target.path]; !exists {
				return nil
			}
			q.Special = append(q.Special, target.path)
			label = "state-special"
		case 4:
			// a symbolic link to the text, which lives under another name in the same directory
			if _, exists := q.Files[target.path]; !exists || target.path == q.absRoot() || q.Links[target.path] != "" {
				return nil
			}
			real := filepath.Join(filepath.Dir(target.path), "real_"+filepath.Base(target.path))
			q.Files[real] = q.Files[target.path]
			delete(q.Files, target.path)
			if q.Links == nil {
				q.Links = map[string]string{}
			}
			q.Links[target.path] = real
			label = "state-symlink"
		}
	case 1: // errno fault at that call
		kinds := []int{simrt.FEnoent, simrt.FEisdir, simrt.FEacces, simrt.FEio, simrt.FEloop, simrt.FEnametoolong, simrt.FEnotdir}
		k := kinds[kindSel%len(kinds)]
		plan = []simrt.PlannedFault{{Call: target.idx, Kind: k}}
		label = "errno-" + simrt.FaultNames[k] + "@" + target.op
	case 2: // content fault at a read
		for _, cl := range calls {
			if isReadOp(cl.op) && cl.idx >= target.idx {
				target = cl
				break
			}
		}
		if !isReadOp(target.op) {
			return nil
		}
		kinds := []int{simrt.FTorn, simrt.FZeroTail, simrt.FFlip, simrt.FSwap, simrt.FDup}
		k := kinds[kindSel%len(kinds)]
		n := len(p.content(target.path))
		plan = []simrt.PlannedFault{{Call: target.idx, Kind: k, P1: (kindSel / 7) % (n + 1), P2: int("()\"\\/*#{}[]@\r\n\x00\x80\xff"[(kindSel/5)%17])}}
		label = "content-" + simrt.FaultNames[k]
	}
	got, disk := c.exec(&q, cs.Opts, cs.Env, plan, cs.Seed)
	if record {
		c.st.FSFaultRuns++
		if mode == 0 {
			c.st.FSStates++
		}
		if target.depth >= 1 {
			c.st.DepthGE2++
		}
		c.note("fs:" + label + ":" + ref.digest() + fmt.Sprint(target.idx))
		if len(c.st.Samples) < 4 && mode != 2 {
			c.st.Samples = append(c.st.Samples, map[string]any{"kind": "fs", "what": label, "target": target.path, "verdict_msg": got.Msg, "fs_log": disk.Log})
		}
	}
	if v := crashViolation(cs, &got); v != nil {
		v.Plan = plan
		return v
	}
	mustReject := (mode == 0 && kindSel%5 < 2) || mode == 1
	if mode == 1 {
		fired := 0
		for k := simrt.FEnoent; k <= simrt.FEnotdir; k++ {
			fired += disk.Fired[k]
		}
		mustReject = fired > 0
	}
	if mustReject && got.Accepted {
		v := violation(cs, "fs-accepted", label, "project accepted although the include target is "+label)
		v.Plan = plan
		return v
	}
	if mode == 0 && kindSel%5 >= 3 {
		// the text is all there: nothing may change
		if same, what := ref.Same(&got); !same {
			return violation(cs, map[bool]string{true: "symlink-changes-result", false: "special-file-changes-result"}[kindSel%5 == 4], what, fmt.Sprintf("the include target %s is %s (the whole text is there when it is read); the result differs from the one with a regular file: field %s\n regular: accepted=%v msg=%q\n now    : accepted=%v msg=%q", target.path, map[bool]string{true: "a symbolic link to a file in the same directory", false: "a FIFO or /proc-like file that reports size 0 to stat and delivers short reads"}[kindSel%5 == 4], what, ref.Accepted, ref.Msg, got.Accepted, got.Msg))
		}
	}
	if mode == 0 && kindSel%5 == 2 && ref.Accepted {
		// an empty file is the empty text: must still be a clean verdict (no crash, checked above)
		_ = got
	}
	// no state leaks from the failed run into the next parse in this process
	again, _ := c.exec(p, cs.Opts, cs.Env, nil, cs.Seed)
	if same, what := ref.Same(&again); !same {
		v := violation(cs, "state-leak", what, "fault-free re-run after "+label+" differs from the reference")
		v.Plan = plan
		return v
	}
	return c.confined(cs, disk, filepath.Dir(rootAbs))
}

func toInt(v any) (int, bool) {
	switch x := v.(type) {
	case int:
		return x, true
	case float64:
		return int(x), true
	case int64:
		return int(x), true
	}
	return 0, false
}

func (c *c08) checkCycle(cs *Case, record bool) *Case {
	got, disk := c.exec(&cs.Project, cs.Opts, cs.Env, nil, cs.Seed)
	ji, _ := cs.Extra["jsight_inside"].(bool)
	if record {
		if ji {
			c.st.JsightInInclude++
		} else {
			c.st.Cycles++
		}
		c.note(fmt.Sprintf("cycle:%d:%v:%d", len(cs.Project.Files), ji, len(disk.Log)))
		if len(c.st.Samples) < 6 {
			c.st.Samples = append(c.st.Samples, map[string]any{"kind": "cycle", "files": projectText(&cs.Project), "verdict_msg": got.Msg})
		}
	}
	if v := crashViolation(cs, &got); v != nil {
		return v
	}
	if got.Accepted {
		if ji {
			return violation(cs, "jsight-include-accepted", "jsight-in-include", "JSIGHT directive inside an included file was accepted")
		}
		return violation(cs, "cycle-accepted", "cycle", "include cycle was accepted")
	}
	if got.SoftHit {
		return violation(cs, "cycle-slow", "cycle", "include cycle rejected only after the soft step budget")
	}
	return c.confined(cs, disk, filepath.Dir(cs.Project.absRoot()))
}

func (c *c08) checkName(cs *Case, record bool) *Case {
	name, _ := cs.Extra["name"].(string)
	quoted, _ := cs.Extra["quoted"].(bool)
	nested, _ := cs.Extra["nested"].(bool)
	got, disk := c.exec(&cs.Project, cs.Opts, cs.Env, nil, cs.Seed)
	dir := filepath.Dir(cs.Project.absRoot())
	if nested {
		dir = filepath.Join(dir, "deep")
	}
	if record {
		c.st.Names++
		if got.Accepted {
			c.st.NamesAccepted++
		} else {
			c.st.NamesRejected++
		}
		c.note(fmt.Sprintf("name:%s:%v:%v", name, quoted, nested))
		if len(c.st.Samples) < 9 && (c.st.Names%997 == 1) {
			c.st.Samples = append(c.st.Samples, map[string]any{"kind": "name", "name": name, "quoted": quoted, "nested": nested, "accepted": got.Accepted, "msg": got.Msg, "fs_log": disk.Log})
		}
	}
	if v := crashViolation(cs, &got); v != nil {
		return v
	}
	// (c) confinement: whatever the verdict, nothing outside the including file's directory is opened
	for _, e := range disk.Log {
		ap := e.Path
		if !filepath.IsAbs(ap) {
			ap = filepath.Join(cs.Project.cwd(), ap)
		}
		ap = filepath.Clean(ap)
		switch e.Op {
		case "readfile", "open", "readdir", "openfile-write":
			if ap == cs.Project.absRoot() || (nested && ap == filepath.Join(filepath.Dir(cs.Project.absRoot()), "deep/inner.jst")) {
				continue
			}
			if !insideDir(ap, dir) {
				return violation(cs, "escape", e.Op+":"+pathShape(ap, dir), fmt.Sprintf("%s %q is outside %q (name %q)", e.Op, e.Path, dir, name))
			}
			c.st.OpensInside++
		case "stat", "lstat":
			if !insideDir(ap, dir) && ap != dir {
				c.st.StatsOutside++
			}
		}
	}
	// names the property lists must be rejected (only where the written name is unambiguous)
	// (INCLUDE keeps the quote characters of a quoted parameter as part of the name, so only bare names are unambiguous)
	unambiguous := !strings.ContainsAny(name, "\"") && !quoted
	if unambiguous {
		if mr, why := mustRejectName(name); mr && got.Accepted {
			return violation(cs, "name-accepted", why, fmt.Sprintf("INCLUDE of %q (quoted=%v) was accepted", name, quoted))
		}
	}
	return nil
}

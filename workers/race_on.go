//go:build race

package main

const raceBuild = true

package main

import (
	"fmt"
	"path/filepath"
	"strings"

	"github.com/jsightapi/jsight-api-go-library/core"
	"github.com/jsightapi/jsight-api-go-library/directive"
	"github.com/jsightapi/jsight-api-go-library/scanner"
	schemafs "github.com/jsightapi/jsight-schema-go-library/fs"
	simrt "verif.local/simrt"
)

// C18 — Banned directives are really banned, and the option changes nothing else.

const nDirectiveKinds = 30

type c18 struct {
	tier string
	n    int
	st   struct {
		Exec, WithOccurrence, WithoutOccurrence, IncludeBannedRuns, DiskStates    int
		ViaMacroBody, ViaIncludedFile, Direct, Singletons, LargerSets, OtherFault int
		ReusedOptionRuns                                                          int
		LayoutRuns                                                                int
		KindsBanned                                                               [nDirectiveKinds]int
		KindsOccurred                                                             [nDirectiveKinds]int
		Distinct, Nontrivial                                                      map[uint64]bool
		Samples                                                                   []any
	}
}

func init() {
	runners["C18"] = func(tier string) runner {
		c := &c18{tier: tier, n: 9000}
		if tier == "thorough" {
			c.n = 2000000
		}
		c.st.Distinct = map[uint64]bool{}
		c.st.Nontrivial = map[uint64]bool{}
		return c
	}
}

func (c *c18) NumCases(string) int { return c.n }

func (c *c18) Stats() map[string]any {
	banned, occurred := map[string]int{}, map[string]int{}
	for k := 0; k < nDirectiveKinds; k++ {
		if c.st.KindsBanned[k] > 0 {
			banned[directive.Enumeration(k).String()] = c.st.KindsBanned[k]
		}
		if c.st.KindsOccurred[k] > 0 {
			occurred[directive.Enumeration(k).String()] = c.st.KindsOccurred[k]
		}
	}
	return map[string]any{
		"executions": c.st.Exec, "cases_with_banned_occurrence": c.st.WithOccurrence, "cases_without_banned_occurrence": c.st.WithoutOccurrence,
		"include_banned_runs": c.st.IncludeBannedRuns, "disk_states_tried": c.st.DiskStates, "occurrence_only_in_macro_body": c.st.ViaMacroBody,
		"occurrence_only_in_included_file": c.st.ViaIncludedFile, "occurrence_in_root": c.st.Direct, "singleton_sets": c.st.Singletons,
		"larger_sets": c.st.LargerSets, "runs_with_reused_option_value": c.st.ReusedOptionRuns, "runs_with_varied_ban_hand_over": c.st.LayoutRuns, "projects_with_another_fault": c.st.OtherFault, "kinds_banned": banned, "kinds_banned_and_occurring": occurred,
		"distinct": distinctList(c.st.Distinct), "distinct_nontrivial_keys": distinctList(c.st.Nontrivial), "samples": c.st.Samples,
	}
}

func (c *c18) RunCase(seed uint64, idx int) []Case {
	var out []Case
	for _, cs := range c.DumpCase(seed, idx) {
		cs := cs
		if v := c.check(&cs, true); v != nil {
			out = append(out, *v)
		}
	}
	return out
}

func (c *c18) Replay(cs *Case) *Case { return c.check(cs, false) }

func (c *c18) DumpCase(seed uint64, idx int) []Case {
	r := newRng(splitmix(seed, uint64(idx)))
	cs := Case{Prop: "C18", Kind: "ban", Seed: seed, Index: idx, Env: refEnv}
	cs.Opts = Opts{FixedSeed: true}
	if r.chance(400) {
		cs.Opts.Entry = "file"
	}
	// project: corpus or generated (cut into files, with macros)
	cp := loadCorpus()
	if r.chance(400) {
		cs.Project = *corpusProject(r.n(len(cp.roots)))
	} else {
		cfg := randomCfg(r)
		cfg.Macros = 1 + r.n(3)
		d := generateDoc(r, cfg)
		single, multi, _ := cutProject(d, r, "/sim/proj/api", 3)
		if r.chance(300) {
			cs.Project = single
		} else {
			cs.Project = multi
		}
	}
	if r.chance(200) {
		// blanks, tabs, remarks, stray bytes: where a keyword stands on its line and what follows it
		// must not matter to the ban
		cs.Project = lineNoise(&cs.Project, r)
	}
	// banned set: singletons first (every kind many times), then larger subsets
	var banned []int
	if idx%3 != 2 {
		banned = []int{idx % nDirectiveKinds}
		if r.chance(500) {
			banned = []int{r.n(nDirectiveKinds)}
		}
	} else {
		n := 2 + r.n(6)
		seen := map[int]bool{}
		for len(banned) < n {
			k := r.n(nDirectiveKinds)
			if !seen[k] {
				seen[k] = true
				banned = append(banned, k)
			}
		}
	}
	if r.chance(300) {
		// a kind that occurs only inside MACRO bodies of this project (pasted or not)
		only := map[int]bool{}
		outside := map[int]bool{}
		for _, f := range sortedKeys(cs.Project.Files) {
			oo, _, _ := scanOccurrences(f, cs.Project.content(f), f == cs.Project.absRoot())
			for _, o := range oo {
				if o.macro {
					only[o.kind] = true
				} else {
					outside[o.kind] = true
				}
			}
		}
		var cand []int
		for k := 0; k < nDirectiveKinds; k++ {
			if only[k] && !outside[k] {
				cand = append(cand, k)
			}
		}
		if len(cand) > 0 {
			banned = []int{cand[r.n(len(cand))]}
		}
	}
	cs.Opts.Banned = banned
	// (from a stream of its own, so that every other case stays as it is) text that merely spells
	// a banned keyword - in an annotation, as a parameter - is not an occurrence of the kind
	if r2 := newRng(splitmix(seed^0xba77ed, uint64(idx))); len(banned) > 0 && r2.chance(150) {
		kw := directive.Enumeration(banned[r2.n(len(banned))]).String()
		if kw == "HTTP-response-code" {
			kw = "200"
		}
		q := cs.Project.clone()
		files := sortedKeys(q.Files)
		f := files[r2.n(len(files))]
		lines := strings.SplitAfter(string(q.content(f)), "\n")
		var cand []int
		for i, ln := range lines {
			t := strings.TrimSpace(ln)
			for _, k := range []string{"GET", "POST", "PUT", "PATCH", "DELETE", "URL", "TAG", "SERVER", "TYPE", "ENUM", "Version", "Title"} {
				if strings.HasPrefix(t, k+" ") && !strings.Contains(t, "//") && !strings.Contains(t, "/*") && !strings.Contains(t, "#") {
					cand = append(cand, i)
				}
			}
		}
		if len(cand) > 0 {
			i := cand[r2.n(len(cand))]
			body := strings.TrimRight(lines[i], "\r\n")
			end := lines[i][len(body):]
			switch t := strings.TrimSpace(body); {
			case strings.HasPrefix(t, "Version "):
				body = body[:strings.Index(body, "Version ")] + "Version " + kw
			case strings.HasPrefix(t, "Title "):
				body = body[:strings.Index(body, "Title ")] + "Title \"" + kw + "\""
			case r2.chance(500):
				body += " //" + kw
			default:
				body += " // " + kw + " " + kw
			}
			lines[i] = body + end
			q.set(f, []byte(strings.Join(lines, "")))
			cs.Project = q
		}
	}
	if len(cs.Project.Files) > 1 && r.chance(80) {
		// one of the included files is a symbolic link to its text: nothing the option may care about
		q := cs.Project.clone()
		if linkOneFile(&q, r) {
			cs.Project = q
		}
	}
	cs.Opts.SplitBans = len(banned) > 1 && r.chance(500)
	if len(banned) > 0 && r.chance(400) {
		cs.Opts.BanLayout = r.next() | 1
	}
	if len(banned) > 0 && r.chance(60) {
		cs.Opts.UnknownBans = []int{[]int{30, 31, 99, 255, 1 << 20, -1, -7}[r.n(7)]}
	}
	cs.Extra = map[string]any{"disk_seed": r.n(1 << 30)}
	if r.chance(200) && len(banned) == 1 {
		// option values are reused: the ban option of this case was first used together with a
		// second ban option on another JApi (see check)
		other := r.n(nDirectiveKinds)
		if other != banned[0] {
			cs.Extra["reuse_with"] = other
		}
	}
	return []Case{cs}
}

type occurrence struct {
	file   string
	offset int
	kind   int
	inRoot bool
	macro  bool // inside the parentheses of a MACRO
}

// scanOccurrences lists keyword lexemes of one file with the library's own scanner.
func scanOccurrences(path string, content []byte, isRoot bool) (occ []occurrence, includes []string, clean bool) {
	defer func() {
		if r := recover(); r != nil {
			clean = false
		}
	}()
	sc := scanner.NewJApiScanner(schemafs.NewFile(path, content))
	macroDepth := -1
	depth := 0
	lastWasInclude := false
	lastKind := -1
	for {
		lex, je := sc.Next()
		if je != nil {
			return occ, includes, false
		}
		if lex == nil {
			return occ, includes, true
		}
		switch lex.Type() {
		case scanner.Keyword:
			kw := lex.Value().String()
			de, err := directive.NewDirectiveType(kw)
			if err != nil {
				return occ, includes, false // the library stops here with "unknown directive"
			}
			occ = append(occ, occurrence{file: path, offset: int(lex.Begin()), kind: int(de), inRoot: isRoot, macro: macroDepth >= 0})
			lastWasInclude = de == directive.Include
			lastKind = int(de)
		case scanner.Parameter:
			if lastWasInclude {
				includes = append(includes, lex.Value().String())
				lastWasInclude = false
			}
		case scanner.ContextExplicitOpening:
			if lastKind == int(directive.Macro) && macroDepth < 0 {
				macroDepth = depth
			}
			depth++
		case scanner.ContextExplicitClosing:
			depth--
			if macroDepth >= 0 && depth <= macroDepth {
				macroDepth = -1
			}
		}
	}
}

// lineOf returns the 1-based line number of an offset and the text of that line. The line-break
// convention of the file is the one of its first line break: LF (also for CRLF) or CR.
func lineOf(content []byte, off int) (line int, text string) {
	if off > len(content) {
		off = len(content)
	}
	nl := byte('\n')
	for i, c := range content {
		if c == '\n' {
			break
		}
		if c == '\r' {
			if i+1 < len(content) && content[i+1] == '\n' {
				break
			}
			nl = '\r'
			break
		}
	}
	line = 1
	start := 0
	for i := 0; i < off; i++ {
		if content[i] == nl {
			line++
			start = i + 1
		}
	}
	end := start
	for end < len(content) && content[end] != '\n' && content[end] != '\r' {
		end++
	}
	return line, string(content[start:end])
}

func (c *c18) exec(p *Project, o Opts, env Env, plan []simrt.PlannedFault, seed uint64) (Result, *simrt.Disk) {
	c.st.Exec++
	r, d, _ := execute(p, o, env, plan, seed, nil)
	return r, d
}

func (c *c18) check(cs *Case, record bool) *Case {
	p := &cs.Project
	banned := map[int]bool{}
	for _, b := range cs.Opts.Banned {
		banned[b] = true
	}
	plain := cs.Opts
	plain.Banned = nil
	ref, refDisk := c.exec(p, plain, cs.Env, nil, cs.Seed)
	if ref.Panic != "" {
		return nil
	}
	// files the fault-free run without the option reaches
	reached := []string{p.absRoot()}
	seen := map[string]bool{p.absRoot(): true}
	for _, e := range refDisk.Log {
		ap := filepath.Clean(e.Path)
		if isReadOp(e.Op) && e.Err == "" && !seen[ap] {
			seen[ap] = true
			reached = append(reached, ap)
		}
	}
	// occurrences of banned kinds, computed from the scanner's own lexeme stream.
	// Scanning of a file stops where the library's scan would stop (lexical error,
	// unknown keyword); what lies behind that point is not known to be a directive.
	var occ []occurrence
	allClean := true
	hasInclude := false
	rootFirstInclude := -1 // offset of the first INCLUDE keyword of the root file
	for _, f := range reached {
		oo, incs, clean := scanOccurrences(f, p.content(f), f == p.absRoot())
		if !clean {
			allClean = false
		}
		if len(incs) > 0 {
			hasInclude = true
		}
		for _, o := range oo {
			if banned[o.kind] {
				occ = append(occ, o)
			}
			if o.inRoot && o.kind == int(directive.Include) && (rootFirstInclude < 0 || o.offset < rootFirstInclude) {
				rootFirstInclude = o.offset
			}
		}
	}
	var got Result
	var disk *simrt.Disk
	if rw, ok := toInt(cs.Extra["reuse_with"]); ok && len(cs.Opts.Banned) == 1 {
		// One option value, created once, used for two JApi values: first together with a second
		// ban option (on a small unrelated project), then alone for the project under test.
		shared := core.WithBannedDirectives(directive.Enumeration(cs.Opts.Banned[0]))
		second := core.WithBannedDirectives(directive.Enumeration(rw))
		pre := Project{Root: "/sim/pre/main.jst", Cwd: "/sim/cwd"}
		pre.set(pre.Root, []byte("JSIGHT 0.3\n"))
		c.st.Exec++
		executeWith(&pre, []core.Option{core.WithFixedSeedForRegex(), shared, second}, "file", cs.Env, cs.Seed)
		c.st.Exec++
		got, disk = executeWith(p, []core.Option{core.WithFixedSeedForRegex(), shared}, cs.Opts.Entry, cs.Env, cs.Seed)
		if record {
			c.st.ReusedOptionRuns++
		}
	} else {
		got, disk = c.exec(p, cs.Opts, cs.Env, nil, cs.Seed)
	}
	if record {
		key := hash64(fmt.Sprint(projectDigest(p), cs.Opts.Banned))
		c.st.Distinct[key] = true
		if len(cs.Opts.Banned) > 0 {
			c.st.Nontrivial[key] = true
		}
		if cs.Opts.BanLayout != 0 {
			c.st.LayoutRuns++
		}
		if len(cs.Opts.Banned) == 1 {
			c.st.Singletons++
		} else {
			c.st.LargerSets++
		}
		for _, b := range cs.Opts.Banned {
			c.st.KindsBanned[b]++
		}
		if len(occ) > 0 {
			c.st.WithOccurrence++
			root, mac, incl := false, true, true
			for _, o := range occ {
				c.st.KindsOccurred[o.kind]++
				if o.inRoot {
					root = true
					incl = false
				}
				if !o.macro {
					mac = false
				}
			}
			if root {
				c.st.Direct++
			}
			if mac {
				c.st.ViaMacroBody++
			}
			if incl {
				c.st.ViaIncludedFile++
			}
			if !ref.Accepted {
				c.st.OtherFault++
			}
		} else {
			c.st.WithoutOccurrence++
		}
		if len(c.st.Samples) < 4 && len(occ) > 0 && len(p.Files) > 1 && ref.Accepted {
			c.st.Samples = append(c.st.Samples, map[string]any{"files": projectText(p), "banned": bannedNames(cs.Opts.Banned), "verdict_msg": got.Msg, "index": got.Index, "line": got.Line, "fs_log": disk.Log})
		}
	}
	if v := crashViolation(cs, &got); v != nil {
		return v
	}
	names := bannedNames(cs.Opts.Banned)
	if len(occ) == 0 {
		if !allClean && !ref.Accepted {
			// the scan of some file stopped early, so the worker cannot say that no banned
			// kind occurs; both runs stop at the same place or the banned one earlier — only
			// "rejected" can be required
			if got.Accepted {
				return violation(cs, "ban-changes-result", "accepted-with-option", "project rejected without the option is accepted with it")
			}
			return nil
		}
		// none of the banned kinds occurs: exactly the result without the option
		if same, what := ref.Same(&got); !same {
			return violation(cs, "ban-changes-result", diffShape(what), fmt.Sprintf("banning %v changes the result of a project that contains none of them: field %s\n without: accepted=%v msg=%q\n with   : accepted=%v msg=%q", names, what, ref.Accepted, ref.Msg, got.Accepted, got.Msg))
		}
		return nil
	}
	// a banned kind occurs
	kinds := map[string]bool{}
	for _, o := range occ {
		kinds[directive.Enumeration(o.kind).String()] = true
	}
	var kindList []string
	for k := range kinds {
		kindList = append(kindList, k)
	}
	sortStrings(kindList)
	if got.Accepted {
		return violation(cs, "banned-accepted", strings.Join(kindList, "+"), fmt.Sprintf("banned %v; %d occurrences of banned kinds (first in %s at offset %d) but the project is accepted", names, len(occ), occ[0].file, occ[0].offset))
	}
	if banned[int(directive.Include)] && hasKind(occ, int(directive.Include)) {
		// before any file it names is read: with INCLUDE banned no include target may be touched,
		// whatever else is wrong with the project
		for _, e := range disk.Log {
			if filepath.Clean(e.Path) != p.absRoot() {
				return violation(cs, "banned-include-read", e.Op, fmt.Sprintf("INCLUDE is banned, yet the library did %s %q", e.Op, e.Path))
			}
		}
	}
	if ref.Accepted {
		// the banned occurrence is the only thing wrong: the diagnostic must be the 'not allowed' one, at a banned occurrence
		if !strings.Contains(got.RawMsg, "not allowed") {
			return violation(cs, "banned-wrong-diagnostic", strings.Join(kindList, "+"), fmt.Sprintf("banned %v occur, project is otherwise valid, but the diagnostic is %q", kindList, got.Msg))
		}
		located := false
		for _, o := range occ {
			ln, text := lineOf(p.content(o.file), o.offset)
			q := strings.TrimSuffix(got.Quote, "...")
			if int(got.Index) == o.offset && int(got.Line) == ln && strings.HasPrefix(strings.TrimLeft(text, " \t"), strings.TrimLeft(q, " \t")) {
				// the file the diagnostic names must be the file of that directive: no include
				// trace for the root file, "<file>:<line>" first for an included one
				if o.inRoot && got.Msg == got.RawMsg {
					located = true
					break
				}
				if !o.inRoot && strings.HasPrefix(got.Msg, got.RawMsg+"\n"+o.file+":"+fmt.Sprint(ln)+"\n") {
					// ... and the rest of the trace must be a chain of INCLUDE directives that leads from
					// the root to that file: each line names a file and the line of an INCLUDE in it whose
					// target is the file of the line before
					if why := traceChainError(p, got.Msg[len(got.RawMsg)+1:]); why != "" {
						return violation(cs, "banned-wrong-trace", strings.Join(kindList, "+"), "'not allowed' diagnostic has an inconsistent include trace: "+why+"\n"+got.Msg)
					}
					located = true
					break
				}
			}
		}
		if !located {
			return violation(cs, "banned-wrong-location", strings.Join(kindList, "+"), fmt.Sprintf("'not allowed' diagnostic (index %d, line %d, quote %q) is not at any occurrence of a banned kind (first: %s offset %d)", got.Index, got.Line, got.Quote, occ[0].file, occ[0].offset))
		}
	}
	if !ref.Accepted && ref.NewErr == "" && got.NewErr == "" {
		// The project has another fault too. Whatever is wrong *behind* the first banned directive
		// cannot be what is reported: decidable without knowing the scan order across files when
		// that directive is in the root file in front of every INCLUDE, and the fault reported
		// without the option lies in an included file or further down in the root file.
		var first *occurrence
		for i := range occ {
			if occ[i].inRoot && (first == nil || occ[i].offset < first.offset) {
				first = &occ[i]
			}
		}
		if first != nil && (rootFirstInclude < 0 || first.offset <= rootFirstInclude) {
			later := ref.Msg != ref.RawMsg || int(ref.Index) > first.offset
			if later {
				ln, _ := lineOf(p.content(first.file), first.offset)
				if !strings.Contains(got.RawMsg, "not allowed") || int(got.Index) != first.offset || int(got.Line) != ln || got.Msg != got.RawMsg {
					return violation(cs, "banned-not-first", strings.Join(kindList, "+"), fmt.Sprintf("the first banned directive (%s, root file offset %d, line %d) comes before what is reported without the option (index %d: %q), yet the diagnostic with the option is not 'not allowed' at that directive: index %d line %d %q",
						directive.Enumeration(first.kind).String(), first.offset, ln, ref.Index, ref.Msg, got.Index, got.Line, got.Msg))
				}
			}
		}
	}
	// independence from the state of the disk: with INCLUDE banned, the result is the same
	// whatever the include targets are (absent, directory, unreadable, universal disk)
	if banned[int(directive.Include)] && hasKind(occ, int(directive.Include)) && hasInclude {
		ds, _ := toInt(cs.Extra["disk_seed"])
		r := newRng(uint64(ds) + 3)
		for variant := 0; variant < 4; variant++ {
			q := p.clone()
			env := cs.Env
			var plan []simrt.PlannedFault
			switch variant {
			case 0: // every include target absent
				for path := range q.Files {
					if path != q.absRoot() {
						delete(q.Files, path)
					}
				}
			case 1: // targets are directories
				for path := range q.Files {
					if path != q.absRoot() {
						delete(q.Files, path)
						q.Dirs = append(q.Dirs, path)
					}
				}
			case 2: // unreadable: errno on every call after the root read
				for call := 1; call < 12; call++ {
					plan = append(plan, simrt.PlannedFault{Call: call, Kind: []int{simrt.FEacces, simrt.FEio, simrt.FEloop}[r.n(3)]})
				}
				if cs.Opts.Entry == "file" {
					plan = append(plan, simrt.PlannedFault{Call: 0, Kind: simrt.FEacces})
				}
			case 3:
				env.Universal = true
			}
			alt, d2 := c.exec(&q, cs.Opts, env, plan, cs.Seed)
			if record {
				c.st.DiskStates++
				c.st.IncludeBannedRuns++
			}
			if same, what := got.Same(&alt); !same {
				return violation(cs, "banned-include-depends-on-disk", what, fmt.Sprintf("INCLUDE is banned, but the result depends on the state of the disk (variant %d): %q vs %q", variant, got.Msg, alt.Msg))
			}
			for _, e := range d2.Log {
				if filepath.Clean(e.Path) != q.absRoot() {
					return violation(cs, "banned-include-read", e.Op, fmt.Sprintf("INCLUDE is banned, yet the library did %s %q (disk variant %d)", e.Op, e.Path, variant))
				}
			}
		}
	}
	return nil
}

func hasKind(occ []occurrence, k int) bool {
	for _, o := range occ {
		if o.kind == k {
			return true
		}
	}
	return false
}

func bannedNames(bb []int) []string {
	var out []string
	for _, b := range bb {
		if b >= 0 && b < nDirectiveKinds {
			out = append(out, directive.Enumeration(b).String())
		}
	}
	return out
}

func sortStrings(ss []string) {
	for i := 1; i < len(ss); i++ {
		for j := i; j > 0 && ss[j] < ss[j-1]; j-- {
			ss[j], ss[j-1] = ss[j-1], ss[j]
		}
	}
}

// traceChainError checks an include trace ("file:line" per line, innermost first, root last)
// against the project: line i+1 must name an INCLUDE directive whose target is the file of line i.
func traceChainError(p *Project, trace string) string {
	type ent struct {
		file string
		line int
	}
	var ee []ent
	for _, l := range strings.Split(strings.TrimSpace(trace), "\n") {
		i := strings.LastIndex(l, ":")
		if i < 0 {
			return "unparsable trace line " + l
		}
		ee = append(ee, ent{l[:i], atoi(l[i+1:])})
	}
	if len(ee) < 2 {
		return "the trace of a diagnostic in an included file has fewer than two lines"
	}
	abs := func(f string) string {
		if !filepath.IsAbs(f) {
			f = filepath.Join(p.cwd(), f)
		}
		return filepath.Clean(f)
	}
	if abs(ee[len(ee)-1].file) != p.absRoot() {
		return "the trace does not end at the root file"
	}
	for i := 1; i < len(ee); i++ {
		content := p.content(abs(ee[i].file))
		lines := strings.Split(string(content), "\n")
		if !strings.Contains(string(content), "\n") && strings.Contains(string(content), "\r") {
			lines = strings.Split(string(content), "\r") // CR-only file
		}
		if ee[i].line < 1 || ee[i].line > len(lines) {
			return fmt.Sprintf("%s has no line %d", ee[i].file, ee[i].line)
		}
		f := strings.Fields(lines[ee[i].line-1])
		if len(f) < 2 || f[0] != "INCLUDE" {
			return fmt.Sprintf("%s:%d is not an INCLUDE directive", ee[i].file, ee[i].line)
		}
		target := filepath.Join(filepath.Dir(abs(ee[i].file)), f[1])
		if target != abs(ee[i-1].file) {
			return fmt.Sprintf("%s:%d includes %s, not %s", ee[i].file, ee[i].line, f[1], ee[i-1].file)
		}
	}
	return ""
}

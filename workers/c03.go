package main

import (
	"bytes"
	"encoding/gob"
	"encoding/json"
	"fmt"
	"os"
	"os/exec"
	"path/filepath"
	"regexp"
	"strings"

	simrt "verif.local/simrt"
)

// C03 — Determinism: same project, same verdict, same diagnostic, same bytes.
//
// The same project is executed under a reference environment and under other
// simulated environments; every environment is one the real runtime may
// produce, so any difference in the observable result is a violation.

type c03 struct {
	tier  string
	n     int
	nEnvs int
	sites siteTable
	st    struct {
		Exec, Compared, EnvHistory, EnvCompanions, EnvFresh, Accepted, Rejected, MultiFaultDocs int
		NonDefault                                                                              int // comparisons whose environment consumed a non-default decision
		Distinct, Nontrivial                                                                    map[uint64]bool
		Samples                                                                                 []any
		ClockReads, RandReads                                                                   uint64
	}
}

type siteTable struct {
	Sites []struct {
		ID    int    `json:"id"`
		Class string `json:"class"`
	} `json:"sites"`
	MapSites []struct {
		ID   int    `json:"id"`
		Pkg  string `json:"pkg"`
		Func string `json:"func"`
		File string `json:"file"`
		Line int    `json:"line"`
		Addr bool   `json:"addr_keyed"`
	} `json:"map_sites"`
}

func loadSiteTable() siteTable {
	var t siteTable
	b, err := os.ReadFile(sitesPath)
	if err == nil {
		json.Unmarshal(b, &t)
	}
	return t
}

func init() {
	runners["C03"] = func(tier string) runner {
		c := &c03{tier: tier, n: 3000, nEnvs: 5}
		if tier == "thorough" {
			c.n, c.nEnvs = 100000, 12
		}
		c.st.Distinct = map[uint64]bool{}
		c.st.Nontrivial = map[uint64]bool{}
		c.sites = loadSiteTable()
		return c
	}
}

func (c *c03) NumCases(string) int { return c.n }

func (c *c03) Stats() map[string]any {
	ms := map[string]any{}
	for _, m := range c.sites.MapSites {
		v, v2, ni := simrt.MapSiteStats(m.ID)
		ms[fmt.Sprintf("%s:%d %s", m.File, m.Line, m.Func)] = map[string]any{"visits": v, "visits_ge2_keys": v2, "non_ascending": ni}
	}
	gets, reuses, cross, drops, notLast := simrt.PoolStats()
	sw, yl, lw, ow, hot := simrt.SchedStats()
	cr, rr := simrt.ClockStats()
	return map[string]any{
		"executions": c.st.Exec, "comparisons": c.st.Compared, "env_with_history": c.st.EnvHistory, "env_with_companions": c.st.EnvCompanions,
		"forced_garbage_collections": simrt.ForcedGCs, "directory_listings_reordered": simrt.DirListingsReordered,
		"env_fresh_process": c.st.EnvFresh, "accepted": c.st.Accepted, "rejected": c.st.Rejected, "multi_fault_docs": c.st.MultiFaultDocs,
		"comparisons_with_consumed_nondefault_decision": c.st.NonDefault,
		"map_sites":   ms,
		"pool":        map[string]any{"gets": gets, "reuses": reuses, "cross_goroutine": cross, "drops": drops, "not_most_recent": notLast},
		"sched":       map[string]any{"switches": sw, "yields": yl, "lock_waits": lw, "once_waits": ow, "switches_inside_library": hot},
		"clock_reads": cr, "rand_reads": rr,
		"distinct": distinctList(c.st.Distinct), "distinct_nontrivial_keys": distinctList(c.st.Nontrivial), "samples": c.st.Samples,
	}
}

func (c *c03) RunCase(seed uint64, idx int) []Case {
	var out []Case
	for _, cs := range c.DumpCase(seed, idx) {
		cs := cs
		if v := c.check(&cs, true); v != nil {
			out = append(out, *v)
		}
	}
	return out
}

func (c *c03) Replay(cs *Case) *Case { return c.check(cs, false) }

type altEnv struct {
	Env        Env       `json:"env"`
	History    []Project `json:"history,omitempty"`
	Companions []Project `json:"companions,omitempty"`
	Fresh      bool      `json:"fresh,omitempty"`
	// HistoryFirst: this environment (history, then the project) is executed before anything else of
	// the case touched the project's file names, and is compared with the result of a fresh process:
	// state kept per file name or per text by the first execution cannot be seen any other way.
	HistoryFirst bool             `json:"history_first,omitempty"`
	YieldSeed    uint64           `json:"yield_seed,omitempty"`
	ColdPm       int              `json:"cold_permille,omitempty"`
	StayPm       int              `json:"stay_permille,omitempty"`
	Decisions    []simrt.Decision `json:"decisions,omitempty"`
}

// lastTwin is the valid twin of the project genProject returned last (nil if none).
var lastTwin *Project

func (c *c03) genProject(r *rng) (Project, bool) {
	lastTwin = nil
	cp := loadCorpus()
	if r.chance(350) {
		for tries := 0; tries < 8; tries++ {
			if i := r.n(len(cp.roots)); lightFixture(i) {
				return *corpusProject(i), false
			}
		}
	}
	cfg := randomCfg(r)
	multi := false
	if r.chance(700) {
		multi = true
		switch r.n(12) {
		case 11:
			cfg.PathBodyFuzz = true
			cfg.Types += 2
		case 10:
			cfg.LateFaults = 2 + r.n(3)
		case 9:
			cfg.PathTypeRefs = 2 + r.n(4)
		case 8:
			cfg.EnumMismatch = 1
		case 5:
			cfg.DupPathParams = 2 + r.n(3)
		case 6:
			cfg.PathRedescribe = 2 + r.n(3)
		case 7:
			cfg.MacroGraph = 2 + r.n(4)
		case 0:
			cfg.RecursiveMacros = 2 + r.n(3)
		case 1:
			cfg.UnusedPathParams = 2 + r.n(3)
		case 2:
			cfg.BadEnums = 2 + r.n(2)
		case 3:
			cfg.BadTypes = 2 + r.n(2)
		case 4:
			cfg.RecursiveMacros, cfg.UnusedPathParams, cfg.BadTypes, cfg.BadEnums = r.n(3), r.n(3), r.n(3), r.n(3)
		}
		if cfg.LateFaults > 0 {
			// nothing may reject the document before the last stage
			cfg.Enums, cfg.EnumsInTypes, cfg.BadEnums, cfg.BadTypes = 0, false, 0, 0
		} else {
			cfg.Enums += 2
			cfg.EnumsInTypes = true
		}
	}
	rs := *r // the twin is generated from the same PRNG state
	d := generateDoc(r, cfg)
	depth := 3
	if cfg.LateFaults > 0 {
		depth = 5 // faults that are reported after scanning, from files several includes deep
	}
	single, mp, _ := cutProject(d, r, "/sim/proj/api", depth)
	if cfg.EnumMismatch == 1 {
		cfg2 := cfg
		cfg2.EnumMismatch = 2
		r2 := rs
		d2 := generateDoc(&r2, cfg2)
		t := Project{Root: single.Root, Cwd: single.Cwd}
		t.set(t.Root, []byte(d2.Render()))
		lastTwin = &t
		return single, multi
	}
	if r.chance(500) && !(cfg.LateFaults > 0 && len(mp.Files) >= 4) {
		return single, multi
	}
	if r.chance(150) {
		// one of the included files is not there: the diagnostic (and nothing else, such as a file of
		// the same name somewhere else) decides
		var inc []string
		for _, f := range sortedKeys(mp.Files) {
			if f != mp.absRoot() {
				inc = append(inc, f)
			}
		}
		if len(inc) > 0 {
			gone := inc[r.n(len(inc))]
			body := mp.content(gone)
			delete(mp.Files, gone)
			if r.chance(500) {
				// ... but files whose names differ from it only in letter case are (two of them, with
				// different content): no business of this project
				dir, base := filepath.Dir(gone), filepath.Base(gone)
				up, tg := strings.ToUpper(base), toggleCase(base)
				if up != base && tg != base && up != tg {
					mp.set(filepath.Join(dir, up), body)
					mp.set(filepath.Join(dir, tg), []byte("TAG @fromTwin\n"))
				}
			}
		}
	}
	return mp, multi
}

func (c *c03) DumpCase(seed uint64, idx int) []Case {
	r := newRng(splitmix(seed, uint64(idx)))
	cs := Case{Prop: "C03", Kind: "env", Seed: seed, Index: idx, Env: refEnv}
	cs.Opts = optionSets[r.n(4)]
	p, multi := c.genProject(r)
	// Names are unique per case: state that a changed tree may keep per file name must come from
	// this case's own history, not from whatever case this worker process ran before.
	if r.chance(120) {
		p = lineNoise(&p, r)
	}
	caseDir := fmt.Sprintf("/sim/k%d", idx)
	p = rebase(&p, caseDir)
	cs.Project = p
	twin := lastTwin
	if twin != nil {
		t := rebase(twin, caseDir)
		twin = &t
	}
	var envs []altEnv
	for e := 0; e < c.nEnvs; e++ {
		a := altEnv{}
		switch e {
		case 0:
			a.Env = Env{MapPolicy: simrt.MapDesc, PoolPolicy: simrt.PoolMostRecent}
		case 1:
			a.Env = Env{MapPolicy: simrt.MapRot, PoolPolicy: simrt.PoolOldest, ClockStart: int64(r.n(1 << 30)), RandSeed: int64(r.n(1 << 30))}
		default:
			a.Env = Env{MapPolicy: simrt.MapRandom, PoolPolicy: r.n(5), ClockStart: int64(r.n(1 << 30)), RandSeed: int64(r.n(1 << 30))}
			if r.chance(300) {
				a.Env.PoolDrop = 200
			}
		}
		if e >= 1 {
			a.Env.ReadOrder = r.n(len(readOrders))
			a.Env.CwdShadow = r.chance(300)
			a.Env.ReuseInput = r.chance(200)
			if r.chance(150) || (len(p.Files) >= 4 && r.chance(300)) {
				a.Env.GCEvery = []int{500, 3000, 20000}[r.n(3)]
			}
		}
		if e == 2 || (e > 2 && r.chance(250)) {
			for k := 1 + r.n(3); k > 0; k-- {
				hp, _ := c.genProject(r)
				if r.chance(500) {
					hp = rebase(&hp, caseDir) // an unrelated project under the same names
				}
				a.History = append(a.History, hp)
			}
			if r.chance(500) {
				// the same paths with slightly different content of the same length, processed
				// earlier in this process (a file edited between two parses)
				a.History = append(a.History, editedCopy(&p, r))
			}
			if twin != nil {
				// the valid twin of this invalid project (same schema texts, other ENUM) came first
				a.History = append(a.History, *twin)
			}
		}
		if e == 3 || (e > 3 && r.chance(250)) {
			for k := 1 + r.n(3); k > 0; k-- {
				hp, _ := c.genProject(r)
				a.Companions = append(a.Companions, hp)
			}
			a.YieldSeed = r.next()
			a.ColdPm = r.n(21)
			a.StayPm = []int{500, 900, 990}[r.n(3)]
		}
		if e == 4 && idx%25 == 0 {
			a = altEnv{Env: refEnv, Fresh: true}
		}
		envs = append(envs, a)
	}
	if idx%6 == 5 {
		hf := altEnv{Env: refEnv, HistoryFirst: true}
		hf.History = append(hf.History, editedCopy(&p, r))
		if twin != nil {
			hf.History = append(hf.History, *twin)
		}
		envs = append([]altEnv{hf}, envs...)
	}
	cs.Extra = map[string]any{"envs": envs, "multi_fault": multi}
	return []Case{cs}
}

func decodeEnvs(v any) []altEnv {
	if ee, ok := v.([]altEnv); ok {
		return ee
	}
	b, _ := json.Marshal(v)
	var out []altEnv
	json.Unmarshal(b, &out)
	return out
}

// setYields enables the always-on sites and a seeded subset of the others.
func (c *c03) setYields(seed uint64, coldPermille int) {
	setYieldSites(&c.sites, seed, coldPermille)
}

func setYieldSites(t *siteTable, seed uint64, coldPermille int) {
	r := newRng(seed)
	for _, s := range t.Sites {
		on := false
		switch s.Class {
		case "hot", "entry":
			on = true
		default:
			on = r.chance(coldPermille)
		}
		if s.ID < simrt.MaxSites {
			simrt.On[s.ID] = on
		}
	}
}

func clearYieldSites(t *siteTable) {
	for _, s := range t.Sites {
		if s.ID < simrt.MaxSites {
			simrt.On[s.ID] = false
		}
	}
}

// runAlt executes the project under an alternative environment.
func (c *c03) runAlt(cs *Case, a *altEnv, forced []simrt.Decision) (Result, []simrt.Decision) {
	p := &cs.Project
	if a.Fresh {
		c.st.EnvFresh++
		return freshProcessResult(cs), nil
	}
	// history: other projects processed earlier in this process, under the same environment
	for i := range a.History {
		c.st.Exec++
		if i > 0 {
			simrt.KeepPoolsOnce() // what the earlier projects left in the pools is part of the history
		}
		execute(&a.History[i], cs.Opts, a.Env, nil, cs.Seed+uint64(i)+100, nil)
	}
	if len(a.History) > 0 {
		simrt.KeepPoolsOnce()
	}
	if len(a.Companions) == 0 {
		c.st.Exec++
		// every environment draws from its own PRNG stream (scheduling of goroutines that the
		// library itself starts, shuffles, pool choices)
		if a.Env.ReuseInput && cs.Opts.Entry == "file" {
			var buf []byte
			sharedRootBuffer, sharedRootFile = &buf, nil
			defer func() { sharedRootBuffer, sharedRootFile = nil, nil }()
			c.st.Exec++
			execute(p, cs.Opts, a.Env, nil, cs.Seed+77, nil)
			simrt.KeepPoolsOnce()
		}
		r, _, dec := execute(p, cs.Opts, a.Env, nil, cs.Seed+1+uint64(a.Env.RandSeed)*7919+uint64(a.Env.MapPolicy), forced)
		return r, dec
	}
	// companions: processed concurrently under a seeded schedule
	c.st.Exec += 1 + len(a.Companions)
	ps := []*Project{p}
	for i := range a.Companions {
		q := rebase(&a.Companions[i], fmt.Sprintf("/sim/companion%d", i))
		ps = append(ps, &q)
	}
	c.setYields(a.YieldSeed, a.ColdPm)
	defer clearYieldSites(&c.sites)
	rs, dec := executeConcurrent(ps, cs.Opts, a.Env, cs.Seed+2, forced, a.StayPm)
	return rs[0], dec
}

// executeConcurrent runs several projects as simulated goroutines on one disk.
func executeConcurrent(ps []*Project, o Opts, env Env, seed uint64, forced []simrt.Decision, stayPm int) ([]Result, []simrt.Decision) {
	simrt.Active = true
	simrt.Reset(seed)
	if forced != nil {
		simrt.Force(forced)
	}
	simrt.SetMapPolicy(env.MapPolicy)
	simrt.SetPoolPolicy(env.PoolPolicy, env.PoolDrop)
	simrt.SetClock(1_700_000_000+env.ClockStart, env.RandSeed)
	curReadOrder = env.ReadOrder
	simrt.SetGCEvery(uint64(env.GCEvery))
	simrt.SetSchedPolicy(stayPm, -1, 0, 0)
	d := mountProject(ps[0], env, nil)
	total := uint64(0)
	for _, p := range ps {
		for path := range p.Files {
			d.AddFile(path, p.content(path))
		}
		for _, dir := range p.Dirs {
			d.AddDir(dir)
		}
		total += uint64(p.totalBytes() + 200)
	}
	simrt.FS = d
	simrt.SetBudget(softFactor*total, hardFactor*total)
	res := make([]Result, len(ps))
	fns := make([]func(), len(ps))
	shared := o.options() // one set of option values for all goroutines
	for i := range ps {
		i := i
		fns[i] = func() { res[i] = runLibraryWith(ps[i].Root, ps[i].content(ps[i].absRoot()), shared, o.Entry) }
	}
	panics := simrt.RunGoroutines(fns)
	for i, pv := range panics {
		if pv != nil && res[i].Panic == "" {
			res[i].Panic = fmt.Sprint(pv)
			res[i].PanicSig = "goroutine:" + normPanicMsg(fmt.Sprint(pv))
		}
	}
	notePanics(&res[0], nil)
	dec, _ := simrt.Decisions()
	simrt.SetBudget(^uint64(0), ^uint64(0))
	eh, en := simrt.EventHash()
	traceFold(eh, en, hash64(res[0].digest()))
	return res, dec
}

// freshProcessResult runs the reference environment in a new process.
func freshProcessResult(cs *Case) Result {
	one := *cs
	one.Extra = nil
	b, _ := json.Marshal(one)
	var out []byte
	var err error
	fails := 0
	for attempt := 0; attempt < 3; attempt++ {
		cmd := exec.Command(os.Args[0], "oneshot")
		cmd.Stdin = strings.NewReader(string(b))
		cmd.Env = append(os.Environ(), "SIM_COLD=1") // no warm-up: the reference result in a cold process
		out, err = cmd.Output()
		if err == nil {
			break
		}
		fails++
	}
	var r Result
	if err != nil {
		// the child died three times out of three: a property of the tree, not of the machine
		r.Panic = "fresh process failed: " + err.Error()
		r.PanicSig = "fresh-process-died"
		return r
	}
	if fails > 0 {
		fmt.Fprintln(os.Stderr, "worker: fresh process failed", fails, "time(s) and then succeeded: machine trouble (fork/memory), not a finding")
		os.Exit(97)
	}
	// gob, not JSON: messages and quotes may hold bytes that are not UTF-8, which JSON would replace
	if gob.NewDecoder(bytes.NewReader(out)).Decode(&r) != nil {
		fmt.Fprintln(os.Stderr, "worker: unparsable oneshot output")
		os.Exit(97)
	}
	return r
}

func cmdOneshot() {
	var cs Case
	dec := json.NewDecoder(os.Stdin)
	must(dec.Decode(&cs))
	r, _, _ := execute(&cs.Project, cs.Opts, cs.Env, nil, cs.Seed, nil)
	must(gob.NewEncoder(os.Stdout).Encode(r))
}

// pack stores one differing environment in a violation so that the minimiser
// can shrink its decisions, history and companions.
func pack(v *Case, a *altEnv, dec []simrt.Decision) {
	b := *a
	v.Decisions = dec
	hist, comp := b.History, b.Companions
	b.History, b.Companions, b.Decisions = nil, nil, nil
	v.Extra = map[string]any{"envs": []altEnv{b}, "history": hist, "companions": comp}
}

func unpackEnvs(cs *Case) []altEnv {
	envs := decodeEnvs(cs.Extra["envs"])
	if len(envs) == 1 {
		if h, ok := cs.Extra["history"]; ok && h != nil {
			b, _ := json.Marshal(h)
			json.Unmarshal(b, &envs[0].History)
		}
		if h, ok := cs.Extra["companions"]; ok && h != nil {
			b, _ := json.Marshal(h)
			json.Unmarshal(b, &envs[0].Companions)
		}
		if cs.Decisions != nil {
			envs[0].Decisions = cs.Decisions
		}
	}
	return envs
}

func consumedNonDefault(dec []simrt.Decision) bool {
	for _, d := range dec {
		if d.C != 0 {
			return true
		}
	}
	return false
}

func (c *c03) check(cs *Case, record bool) *Case {
	p := &cs.Project
	envs := unpackEnvs(cs)
	for ei := range envs {
		a := &envs[ei]
		if !a.HistoryFirst {
			continue
		}
		got, dec := c.runAlt(cs, a, nil)
		cold := freshProcessResult(cs)
		c.st.Compared++
		if record {
			c.st.EnvHistory++
			c.st.EnvFresh++
		}
		if got.Panic != "" || cold.Panic != "" {
			continue
		}
		if same, what := cold.Same(&got); !same {
			detail := fmt.Sprintf("field %s: the project processed after %d other project(s) with the same file names differs from the project processed alone in a fresh process\n fresh : accepted=%v msg=%q index=%d line=%d quote=%q\n after : accepted=%v msg=%q index=%d line=%d quote=%q",
				what, len(a.History), cold.Accepted, cold.Msg, cold.Index, cold.Line, cold.Quote, got.Accepted, got.Msg, got.Index, got.Line, got.Quote)
			v := violation(cs, "nondeterminism", diffShape(what)+"@history-first", detail)
			pack(v, a, dec)
			return v
		}
	}
	c.st.Exec++
	ref, _, _ := execute(p, cs.Opts, refEnv, nil, cs.Seed, nil)
	if record {
		if ref.Accepted {
			c.st.Accepted++
		} else {
			c.st.Rejected++
		}
		if mf, _ := cs.Extra["multi_fault"].(bool); mf {
			c.st.MultiFaultDocs++
		}
	}
	if ref.Panic != "" {
		return nil // crashes are C01's business
	}
	if strings.Contains(ref.SerErr, "-differs") || strings.Contains(ref.SerErr, "returned-bytes-changed") {
		// repeated calls on one JApi value, no other environment needed
		return violation(cs, "nondeterminism", "repeated-call:"+strings.TrimSpace(ref.SerErr),
			"reading the same accepted JApi value twice in the reference environment gives different answers:"+ref.SerErr)
	}
	for ei := range envs {
		a := &envs[ei]
		if a.HistoryFirst {
			continue
		}
		var forced []simrt.Decision
		if !record && a.Decisions != nil {
			forced = a.Decisions
		}
		got, dec := c.runAlt(cs, a, forced)
		c.st.Compared++
		if record {
			if len(a.History) > 0 {
				c.st.EnvHistory++
			}
			if len(a.Companions) > 0 {
				c.st.EnvCompanions++
			}
			key := hash64(fmt.Sprint(projectDigest(p), cs.Opts, dec, len(a.History), len(a.Companions), a.Fresh))
			c.st.Distinct[key] = true
			if consumedNonDefault(dec) || a.Fresh || len(a.History) > 0 {
				c.st.Nontrivial[key] = true
			}
			if consumedNonDefault(dec) {
				c.st.NonDefault++
			}
			if len(c.st.Samples) < 3 && consumedNonDefault(dec) && len(dec) < 40 && len(dec) > 2 {
				c.st.Samples = append(c.st.Samples, map[string]any{"project": projectText(p), "opts": cs.Opts, "environment": a.Env,
					"decisions": dec, "history_projects": len(a.History), "companions": len(a.Companions), "result_digest": got.digest(), "reference_digest": ref.digest(), "accepted": ref.Accepted, "msg": ref.Msg})
			}
		}
		if got.PanicKind == "budget" || (got.Panic != "" && ref.Panic == "") {
			if got.PanicSig == "fresh-process-died" || strings.HasPrefix(got.PanicSig, "goroutine:") || got.Panic != "" {
				// a crash that only some environment shows is a determinism violation as well
				v := violation(cs, "nondeterminism", "panic-under-environment:"+got.PanicSig, "reference run finished, the same project panicked under another environment: "+got.Panic)
				pack(v, a, dec)
				return v
			}
		}
		if same, what := ref.Same(&got); !same {
			a.Decisions = dec
			seam := c.attribute(cs, a, &ref, what)
			detail := fmt.Sprintf("field %s differs between the reference environment and another legal environment (%s)\n reference: accepted=%v msg=%q index=%d line=%d\n other    : accepted=%v msg=%q index=%d line=%d",
				what, seam, ref.Accepted, ref.Msg, ref.Index, ref.Line, got.Accepted, got.Msg, got.Index, got.Line)
			if what != "message" && what != "verdict" && what != "index" && what != "line" && what != "quote" {
				detail += fmt.Sprintf("\n reference json: %s\n other json    : %s", trunc(ref.JSON, 300), trunc(got.JSON, 300))
			}
			sig := diffShape(what) + "@" + seam
			if diffShape(what) == "json:schema/example" && seam != "fresh-process" && sharedRegexType(p) {
				// The listed finding: the example generator of a regex TYPE is stateful inside the schema
				// dependency, and a regex type referenced from several places is visited in an order (map
				// ranges, a pooled loader) that is not the document's. Which seam shows it varies; the
				// class of documents does not.
				sig = "json:schema/example@regex-type-referenced-more-than-once"
				detail += "\n (the document has a regex TYPE that is referenced from two or more places; seam(s) that showed it here: " + seam + ")"
			}
			v := violation(cs, "nondeterminism", sig, detail)
			pack(v, a, dec)
			return v
		}
	}
	return nil
}

// attribute finds which seam the difference needs: it replays the differing
// environment with all decisions but those of one kind (and, for map order,
// of one site) set to zero.
func (c *c03) attribute(cs *Case, a *altEnv, ref *Result, what string) string {
	if a.Fresh {
		return "fresh-process"
	}
	if a.Env.ReadOrder != 0 {
		e := refEnv
		e.ReadOrder = a.Env.ReadOrder
		if got, _, _ := execute(&cs.Project, cs.Opts, e, nil, cs.Seed, nil); got.Panic == "" {
			if same, _ := ref.Same(&got); !same {
				return "read-order:" + readOrders[a.Env.ReadOrder]
			}
		}
	}
	if a.Env.ReuseInput && cs.Opts.Entry == "file" {
		b := altEnv{Env: refEnv}
		b.Env.ReuseInput = true
		if got, _ := c.runAlt(cs, &b, nil); got.Panic == "" {
			if same, _ := ref.Same(&got); !same {
				return "input-buffer-reuse"
			}
		}
	}
	if a.Env.ReuseInput && cs.Opts.Entry == "file" && (a.Env.PoolPolicy != refEnv.PoolPolicy || a.Env.PoolDrop != 0) {
		// the project processed twice in a row and what the pools hand out the second time
		b := altEnv{Env: refEnv}
		b.Env.ReuseInput, b.Env.PoolPolicy, b.Env.PoolDrop = true, a.Env.PoolPolicy, a.Env.PoolDrop
		if got, _ := c.runAlt(cs, &b, nil); got.Panic == "" {
			if same, _ := ref.Same(&got); !same {
				return "pool+same-project-twice"
			}
		}
	}
	if a.Env.GCEvery != 0 {
		e := refEnv
		e.GCEvery = a.Env.GCEvery
		if got, _, _ := execute(&cs.Project, cs.Opts, e, nil, cs.Seed, nil); got.Panic == "" {
			if same, _ := ref.Same(&got); !same {
				return "garbage-collection-timing"
			}
		}
	}
	if a.Env.CwdShadow {
		e := refEnv
		e.CwdShadow = true
		if got, _, _ := execute(&cs.Project, cs.Opts, e, nil, cs.Seed, nil); got.Panic == "" {
			if same, _ := ref.Same(&got); !same {
				return "working-directory"
			}
		}
	}
	differs := func(dec []simrt.Decision, hist, comp bool) bool {
		b := *a
		b.Decisions = dec
		if !hist {
			b.History = nil
		}
		if !comp {
			// without companions the decision list of the concurrent run does not apply
			b.Companions = nil
		}
		got, _ := c.runAlt(cs, &b, dec)
		same, _ := ref.Same(&got)
		return !same
	}
	zeroExcept := func(keep func(d simrt.Decision) bool) []simrt.Decision {
		out := make([]simrt.Decision, len(a.Decisions))
		copy(out, a.Decisions)
		for i := range out {
			if !keep(out[i]) {
				out[i].C = 0
			}
		}
		return out
	}
	comp := len(a.Companions) > 0
	// with companions: does the schedule alone (reference map order, most-recent pool) reproduce it?
	if comp && differs(zeroExcept(func(d simrt.Decision) bool { return d.K == simrt.KSched }), false, true) {
		return "schedule"
	}
	// the order in which opened directories list their entries
	hasDir := false
	for _, d := range a.Decisions {
		if d.K == simrt.KDirOrder && d.C != 0 {
			hasDir = true
		}
	}
	if hasDir && differs(zeroExcept(func(d simrt.Decision) bool { return d.K == simrt.KDirOrder || (comp && d.K == simrt.KSched) }), false, comp) {
		return "directory-listing-order"
	}
	// map order: the minimal set of sites whose non-default order is needed (greedy elimination)
	mapOnly := func(sites map[int32]bool) []simrt.Decision {
		return zeroExcept(func(d simrt.Decision) bool {
			return (d.K == simrt.KMapOrder && sites[d.S]) || (comp && d.K == simrt.KSched)
		})
	}
	used := map[int32]bool{}
	for _, d := range a.Decisions {
		if d.K == simrt.KMapOrder && d.C != 0 {
			used[d.S] = true
		}
	}
	if len(used) > 0 && differs(mapOnly(used), false, comp) {
		for _, m := range c.sites.MapSites {
			id := int32(m.ID)
			if !used[id] || len(used) == 1 {
				continue
			}
			delete(used, id)
			if !differs(mapOnly(used), false, comp) {
				used[id] = true
			}
		}
		var names []string
		for _, m := range c.sites.MapSites {
			if used[int32(m.ID)] {
				names = append(names, strings.TrimPrefix(m.Pkg, "github.com/jsightapi/")+"."+m.Func)
			}
		}
		return "map-order:" + strings.Join(dedupe(names), "+")
	}
	if differs(zeroExcept(func(d simrt.Decision) bool {
		return d.K == simrt.KPoolGet || d.K == simrt.KPoolDrop || (comp && d.K == simrt.KSched)
	}), false, comp) {
		if comp {
			return "schedule+pool"
		}
		return "pool"
	}
	if len(a.History) > 0 && differs(zeroExcept(func(d simrt.Decision) bool { return false }), true, false) {
		return "history"
	}
	zero := zeroExcept(func(d simrt.Decision) bool { return false })
	if differs(zero, false, false) {
		return "clock-or-rng"
	}
	if treeSpawnsGoroutines() && differs(zeroExcept(func(d simrt.Decision) bool { return d.K == simrt.KSched }), false, false) {
		return "schedule-of-goroutines-started-by-the-library"
	}
	return "combined"
}

func dedupe(ss []string) []string {
	var out []string
	seen := map[string]bool{}
	for _, x := range ss {
		if !seen[x] {
			seen[x] = true
			out = append(out, x)
		}
	}
	return out
}

// diffShape normalises the name of a differing field for use in a signature:
// for JSON differences only the last two path elements are kept (the full
// pointer, which names document-specific interactions and types, goes into the
// detail text).
func diffShape(what string) string {
	if !strings.HasPrefix(what, "json:") {
		return what
	}
	parts := strings.Split(strings.TrimPrefix(what, "json:"), "/")
	if len(parts) > 2 {
		parts = parts[len(parts)-2:]
	}
	return "json:" + strings.Join(parts, "/")
}

// editedCopy returns the project with one digit changed in each of up to three files
// (same paths, same lengths, different bytes).
func editedCopy(p *Project, r *rng) Project {
	q := p.clone()
	files := sortedKeys(q.Files)
	if r.chance(400) && len(files) > 0 {
		// the same project under another line-break convention (CR only, or CRLF), in one file or in all
		nl := []string{"\r", "\r\n"}[r.n(2)]
		one := ""
		if r.chance(400) {
			one = files[r.n(len(files))]
		}
		for _, path := range files {
			if one == "" || path == one {
				q.set(path, []byte(strings.ReplaceAll(string(q.content(path)), "\n", nl)))
			}
		}
		return q
	}
	for k := 0; k < 3 && len(files) > 0; k++ {
		path := files[r.n(len(files))]
		b := append([]byte(nil), q.content(path)...)
		var digits []int
		for i, c := range b {
			if c >= '0' && c <= '9' && i > 12 {
				digits = append(digits, i)
			}
		}
		if len(digits) == 0 {
			continue
		}
		i := digits[r.n(len(digits))]
		b[i] = '0' + (b[i]-'0'+1+byte(r.n(8)))%10
		q.set(path, b)
	}
	return q
}

var reRegexType = regexp.MustCompile(`(?m)^[ \t]*TYPE[ \t]+(@[A-Za-z0-9_]+)[ \t]+regex\b`)

// sharedRegexType: does the project declare a regex TYPE whose name occurs at two or more other places?
func sharedRegexType(p *Project) bool {
	var all strings.Builder
	for _, f := range sortedKeys(p.Files) {
		all.Write(p.content(f))
		all.WriteByte('\n')
	}
	txt := all.String()
	for _, m := range reRegexType.FindAllStringSubmatch(txt, -1) {
		name := m[1]
		n := 0
		for i := 0; ; {
			k := strings.Index(txt[i:], name)
			if k < 0 {
				break
			}
			end := i + k + len(name)
			if end >= len(txt) || !(txt[end] == '_' || (txt[end] >= '0' && txt[end] <= '9') || (txt[end] >= 'a' && txt[end] <= 'z') || (txt[end] >= 'A' && txt[end] <= 'Z')) {
				n++
			}
			i = end
		}
		if n >= 3 { // the declaration itself and two uses
			return true
		}
	}
	return false
}

#!/bin/bash
# Build a rewritten scratch copy of /repo's working tree (and of the schema
# dependency) under $1. Leaves: $1/repo (main module, rewritten), $1/dep,
# $1/sites.json. Exit 2 on infrastructure trouble, 3 on unmodelled primitives.
set -u
S="$1"; YIELDS="${2:-true}"
export GOFLAGS=-mod=mod GOPROXY=off GOSUMDB=off GOTOOLCHAIN=local GONOSUMDB=* GONOSUMCHECK=1 GOFLAGS="-mod=mod"
REPO="${VERIF_REPO:-/repo}"
V="$(cd "$(dirname "$0")/.." && pwd)"
fail() { echo "mkscratch: $*" >&2; exit 2; }
mkdir -p "$S" || fail "mkdir $S"
rm -rf "$S/repo" "$S/dep"
rsync -a --exclude .git --exclude '/img' --exclude '/docs' "$REPO/" "$S/repo/" || fail "rsync repo"
DEPVER=$(cd "$REPO" && go list -m -f '{{.Version}}' github.com/jsightapi/jsight-schema-go-library 2>/dev/null) || fail "go list dep"
DEPDIR="$(go env GOMODCACHE)/github.com/jsightapi/jsight-schema-go-library@${DEPVER}"
[ -d "$DEPDIR" ] || fail "dependency not in module cache: $DEPDIR"
rsync -a --exclude '/img' --exclude '/docs' "$DEPDIR/" "$S/dep/" || fail "rsync dep"
chmod -R u+w "$S/dep"
cd "$S/repo" || fail "cd"
# Language version 1.20 in the scratch modules only: simrt.Pairs[K comparable] must be
# instantiable with interface key types (comparable satisfaction, Go 1.20). 1.20 changed no
# behaviour of existing code (the loop-variable change is 1.22), and the pass-through run of
# the repository's suite guards the equivalence.
sed -i -E 's/^go 1\.(1[0-9])$/go 1.20/' go.mod "$S/dep/go.mod"
cat >> go.mod <<EOM

require verif.local/simrt v0.0.0
require github.com/anishathalye/porcupine v1.3.0
replace verif.local/simrt => $V/simrt
replace github.com/jsightapi/jsight-schema-go-library => $S/dep
EOM
cat >> "$S/dep/go.mod" <<EOM

require verif.local/simrt v0.0.0
replace verif.local/simrt => $V/simrt
EOM
"$V/bin/simrewrite" -dir "$S/repo" -sites "$S/sites.json" -yields="$YIELDS" ./... github.com/jsightapi/jsight-schema-go-library/... 
rc=$?
[ $rc -eq 0 ] || { [ $rc -eq 3 ] && exit 3; fail "simrewrite rc=$rc"; }
exit 0

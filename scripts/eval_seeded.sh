#!/bin/bash
# eval_seeded.sh <patch.diff> <tier> <PROP> [PROP...] — apply a seeded change to /repo,
# run the named checks, restore /repo. Prints one line per check: <PROP> exit=<rc> <summary>.
set -u
PATCH="$1"; TIER="$2"; shift 2
cd /repo || exit 2
if [ -n "$(git status --porcelain)" ]; then echo "eval_seeded: /repo is not clean" >&2; exit 2; fi
git apply "$PATCH" || { echo "eval_seeded: patch does not apply" >&2; exit 2; }
trap 'git -C /repo checkout -- . ; git -C /repo clean -fdq' EXIT
export GOFLAGS=-mod=mod GOPROXY=off GOSUMDB=off GOTOOLCHAIN=local
if ! (go build ./... && go test -vet=off -count=1 ./... >/dev/null 2>&1); then echo "eval_seeded: change does not build or fails the existing tests"; fi
for P in "$@"; do
  OUT=$(cd /verif && ./check.sh "$P" "$TIER" 2>&1); rc=$?
  echo "$P exit=$rc $(echo "$OUT" | grep -c '^VIOLATION') violation-lines"
  echo "$OUT" | grep -A1 '^VIOLATION' | grep 'class=' | cut -c1-300 | sed 's/^/    /'
  [ $rc -eq 2 ] && echo "$OUT" | tail -5 | cut -c1-300 | sed 's/^/    !! /'
done

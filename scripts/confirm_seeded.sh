#!/bin/bash
# confirm_seeded.sh <out-dir-of-one-change> <id> [race] — confirm in a scratch worktree that a
# seeded change applies, builds, passes the existing suite, and that its demonstration fails
# with the change and passes without it. Prints a one-line verdict.
OUT="$1"; ID="$2"; RACE="${3:-}"
export GOFLAGS=-mod=mod GOPROXY=off GOSUMDB=off GOTOOLCHAIN=local
W=/tmp/ev/$ID
rm -rf "$W"; git -C /repo worktree prune; git -C /repo worktree add -q --detach "$W" HEAD || { echo "$ID: worktree failed"; exit 2; }
cleanup() { git -C /repo worktree remove --force "$W" >/dev/null 2>&1; }
trap cleanup EXIT
cd "$W" || exit 2
git apply "$OUT/patch.diff" || { echo "$ID: PATCH-DOES-NOT-APPLY"; exit 1; }
go build ./... >/dev/null 2>&1 || { echo "$ID: DOES-NOT-BUILD"; exit 1; }
if ! go test -vet=off -count=1 ./... >/tmp/ev/$ID.suite.log 2>&1; then echo "$ID: SUITE-FAILS-WITH-CHANGE"; exit 1; fi
# place the demo
PKG=$(grep -h '^package ' "$OUT"/demo/*.go | head -1 | awk '{print $2}')
case "${PKG%_test}" in
  kit|core|catalog|directive|scanner|jerr) DDIR="${PKG%_test}";;
  *) DDIR=zzdemo; mkdir -p zzdemo;;
esac
cp "$OUT"/demo/*.go "$DDIR"/
FLAGS="-vet=off -count=1"; [ -n "$RACE" ] && FLAGS="$FLAGS -race"
if [ "$PKG" = "main" ] && ! ls "$OUT"/demo/*_test.go >/dev/null 2>&1; then
  # the demonstration is a program: non-zero exit = violation shown
  timeout 900 go run ${RACE:+-race} ./$DDIR/ >/tmp/ev/$ID.with.log 2>&1; WITH=$?
  git checkout -q -- .
  timeout 900 go run ${RACE:+-race} ./$DDIR/ >/tmp/ev/$ID.without.log 2>&1; WITHOUT=$?
else
timeout 600 go test $FLAGS ./$DDIR/ >/tmp/ev/$ID.with.log 2>&1; WITH=$?
git checkout -q -- . 
timeout 600 go test $FLAGS ./$DDIR/ >/tmp/ev/$ID.without.log 2>&1; WITHOUT=$?
fi
if [ $WITH -ne 0 ] && [ $WITHOUT -eq 0 ]; then echo "$ID: CONFIRMED (demo fails with change rc=$WITH, passes without)"; exit 0; fi
echo "$ID: NOT-CONFIRMED (with rc=$WITH, without rc=$WITHOUT)"; exit 1

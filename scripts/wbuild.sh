#!/bin/bash
# dev helper: copy workers into scratch $1 and build
S=${1:-/var/tmp/vs1}; export GOFLAGS=-mod=mod GOPROXY=off GOSUMDB=off GOTOOLCHAIN=local
cp /verif/scratch_extra/catalog_zz_verif_export.go $S/repo/catalog/zz_verif_export.go; mkdir -p $S/repo/zzverif && cp /verif/workers/*.go $S/repo/zzverif/ && cd $S/repo && go build ${RACE:+-race} -o $S/simworker${RACE:+-race} ./zzverif

#!/bin/bash
# dev helper: copy workers into scratch $1 and build
S=${1:-/var/tmp/vs1}; export GOFLAGS=-mod=mod GOPROXY=off GOSUMDB=off GOTOOLCHAIN=local
mkdir -p $S/repo/zzverif && cp /verif/workers/*.go $S/repo/zzverif/ && cd $S/repo && go build ${RACE:+-race} -o $S/simworker${RACE:+-race} ./zzverif

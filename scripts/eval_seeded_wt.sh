#!/bin/bash
# eval_seeded_wt.sh <id> <tier> <PROP...> — like eval_seeded.sh, but against a scratch worktree of
# /repo (VERIF_REPO) so that /repo itself stays untouched; several can run at once.
ID="$1"; TIER="$2"; shift 2
export GOFLAGS=-mod=mod GOPROXY=off GOSUMDB=off GOTOOLCHAIN=local
W=/tmp/ev/wt-$ID-$$
git -C /repo worktree add -q --detach "$W" HEAD || exit 2
trap 'git -C /repo worktree remove --force "$W" >/dev/null 2>&1' EXIT
V="${VERIF_DIR:-/verif}"
git -C "$W" apply /verif/seeded/$ID/patch.diff || { echo "$ID: patch does not apply"; exit 2; }
for P in "$@"; do
  OUT=$(cd "$V" && VERIF_REPO="$W" ./check.sh "$P" "$TIER" 2>&1); rc=$?
  echo "$ID $P exit=$rc classes: $(echo "$OUT" | grep -A1 '^VIOLATION' | grep -o 'class=[a-z-]*' | sort | uniq -c | tr '\n' ' ')"
  [ $rc -eq 2 ] && echo "$OUT" | tail -4 | cut -c1-300 | sed 's/^/    !! /'
done

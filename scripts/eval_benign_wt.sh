#!/bin/bash
# eval_benign_wt.sh <id> — apply a behaviour-preserving change (benign/<id>/patch.diff) to a scratch
# worktree and run every quick check against it: all must exit 0.
ID="$1"
export GOFLAGS=-mod=mod GOPROXY=off GOSUMDB=off GOTOOLCHAIN=local
W=/tmp/ev/ben-$ID-$$
git -C /repo worktree add -q --detach "$W" HEAD || exit 2
trap 'git -C /repo worktree remove --force "$W" >/dev/null 2>&1' EXIT
git -C "$W" apply /verif/benign/$ID/patch.diff || { echo "$ID: patch does not apply"; exit 2; }
(cd "$W" && go build ./... && go test -vet=off -count=1 ./... >/dev/null 2>&1) || echo "$ID: does not build or fails the suite"
for P in C01 C03 C08 C16 C18; do
  OUT=$(cd "${VERIF_DIR:-/verif}" && VERIF_REPO="$W" ./check.sh "$P" quick 2>&1); rc=$?
  echo "$ID $P exit=$rc $(echo "$OUT" | grep -A1 '^VIOLATION' | grep -o 'class=[a-z-]* signature=[^ ]*' | sort | uniq -c | head -5 | tr '\n' ' ')"
  [ $rc -eq 2 ] && echo "$OUT" | grep -B2 -A6 "INFRA" | cut -c1-300 | sed 's/^/    !! /' | head -14
done
